#!/venv/bin/python
"""Confirms a seeded change and runs the checks against it.

usage: tools/seedcheck.py <ID> <dir with patch.diff, demo.py, meta.json> [--checks C01,C05] [--tier quick] [--keep]

Steps (all in scratch copies of /repo under /tmp, removed afterwards; /repo is never touched):
  1. the patch applies cleanly to the current /repo tree;
  2. demo.py exits 0 on the unpatched copy and non-zero on the patched copy;
  3. the repository's stable baseline tests still pass on the patched copy;
  4. `./check <ID> <tier>` (and any extra checks listed) against the patched copy -> caught / MISSED.
With --keep the seed is stored as /verif/seeded/<name>/ with meta.json extended by what was run."""
import json
import os
import shutil
import subprocess
import sys
import tempfile

ROOT = os.path.dirname(os.path.dirname(os.path.abspath(__file__)))


def sh(cmd, **kw):
    return subprocess.run(cmd, shell=True, capture_output=True, text=True, **kw)


def main():
    args = [a for a in sys.argv[1:] if not a.startswith("--")]
    pid, src = args[0].upper(), os.path.abspath(args[1])
    tier = "quick"
    checks = [pid]
    name = None
    for i, a in enumerate(sys.argv):
        if a == "--checks":
            checks = sys.argv[i + 1].split(",")
        if a == "--tier":
            tier = sys.argv[i + 1]
        if a == "--name":
            name = sys.argv[i + 1]
    args = [a for a in args]
    keep = "--keep" in sys.argv
    patch = os.path.join(src, "patch.diff")
    demo = os.path.join(src, "demo.py")
    work = tempfile.mkdtemp(prefix="verif_seed_")
    report = {"property": pid}
    try:
        clean, bad = os.path.join(work, "clean"), os.path.join(work, "patched")
        for d in (clean, bad):
            sh(f"mkdir -p {d} && cd /repo && git archive HEAD | tar -x -C {d}")
            # include uncommitted working-tree state of /repo (normally none)
        r = sh(f"cd {bad} && patch -p1 --no-backup-if-mismatch < {patch}")
        report["patch_applies"] = r.returncode == 0
        if r.returncode != 0:
            print("PATCH DOES NOT APPLY:\n" + r.stdout + r.stderr)
            return 2
        env = "PYTHONDONTWRITEBYTECODE=1 PYTHONHASHSEED=0"
        d0 = sh(f"cd {work} && {env} PYTHONPATH={clean} timeout 600 /venv/bin/python {demo}")
        d1 = sh(f"cd {work} && {env} PYTHONPATH={bad} timeout 600 /venv/bin/python {demo}")
        report["demo_clean_rc"], report["demo_patched_rc"] = d0.returncode, d1.returncode
        print(f"demo: clean rc={d0.returncode} patched rc={d1.returncode}")
        if d1.returncode != 0:
            print("   patched demo says:", (d1.stdout + d1.stderr).strip().splitlines()[-3:])
        b = sh(f"{ROOT}/tools/baseline.py {bad}")
        if "254/254" not in b.stdout:  # timing-sensitive repo tests can flake under load: one retry
            b = sh(f"{ROOT}/tools/baseline.py {bad}")
        report["baseline"] = b.stdout.strip().splitlines()[0] if b.stdout.strip() else b.stderr[-300:]
        print(report["baseline"])
        results = {}
        for c in checks:
            envs = dict(os.environ, VERIF_REPO=bad, VERIF_EVIDENCE_DIR=os.path.join(work, "ev"), VERIF_FOUND_DIR=os.path.join(work, "found"))
            pr = subprocess.run([os.path.join(ROOT, "check"), c, tier], env=envs, cwd=ROOT, capture_output=True, text=True)
            sigs = [l.strip()[11:] for l in (pr.stdout + pr.stderr).splitlines() if l.strip().startswith("signature:")]
            verdict = {0: "MISSED", 1: "caught", 2: "HARNESS-ERROR"}.get(pr.returncode, str(pr.returncode))
            results[c] = {"verdict": verdict, "signatures": sigs[:4], "tier": tier}
            print(f"check {c} {tier}: {verdict} {sigs[:3]}")
            if verdict == "HARNESS-ERROR":
                print(pr.stderr[-800:])
        report["checks"] = results
        ok = report["demo_clean_rc"] == 0 and report["demo_patched_rc"] != 0 and "254/254" in report["baseline"]
        report["confirmed"] = ok
        print("CONFIRMED" if ok else "NOT CONFIRMED (demo or baseline condition fails)")
        if keep:
            dst = os.path.join(ROOT, "seeded", name or pid)
            os.makedirs(dst, exist_ok=True)
            if os.path.abspath(dst) != src:
                shutil.copy(patch, os.path.join(dst, "patch.diff"))
                shutil.copy(demo, os.path.join(dst, "demo.py"))
            meta = {}
            mp = os.path.join(src, "meta.json")
            if os.path.exists(mp):
                try:
                    meta = json.load(open(mp))
                except Exception:
                    meta = {"raw": open(mp).read()}
            meta["property"] = pid
            meta["verified"] = {
                "how": "tools/seedcheck.py: scratch copies of /repo HEAD; demo.py run on clean and patched copy; "
                       "tools/baseline.py on the patched copy; ./check with VERIF_REPO=<patched copy>",
                "demo_rc_clean": report["demo_clean_rc"], "demo_rc_patched": report["demo_patched_rc"],
                "baseline_on_patched": report["baseline"], "checks": results,
                "repo_head": sh("git -C /repo rev-parse --short HEAD").stdout.strip(),
            }
            json.dump(meta, open(os.path.join(dst, "meta.json"), "w"), indent=1)
            print("stored", dst)
        return 0 if ok and all(v["verdict"] == "caught" for v in results.values()) else 1
    finally:
        shutil.rmtree(work, ignore_errors=True)


if __name__ == "__main__":
    sys.exit(main())
