#!/usr/bin/env python3
"""Prints the markdown table of seeded changes (seeded/*/meta.json) for DESIGN.md section 11.2."""
import glob, json, os, sys
ROOT = os.path.dirname(os.path.dirname(os.path.abspath(__file__)))
rows = []
for d in sorted(glob.glob(os.path.join(ROOT, "seeded", "*"))):
    m = json.load(open(os.path.join(d, "meta.json")))
    v = (m.get("verified") or {}).get("checks") or {}
    verdicts = "; ".join(f"{c}: {x['verdict']} ({', '.join(x['signatures'][:2])})" for c, x in v.items())
    def cut(s, n):
        s = " ".join(str(s).split()).replace("|", "/")
        return s if len(s) <= n else s[: n - 1] + "…"
    rows.append(f"| `{os.path.basename(d)}` | {cut(m.get('summary', ''), 230)} | {cut(m.get('needs', ''), 230)} | {verdicts} |")
print("| seed | change | needs | verdict (signatures) |\n|---|---|---|---|")
print("\n".join(rows))
