#!/venv/bin/python
"""Writes vlib/ezsp_shapes_all.json: frame ID and wire shape (widths from type names, list/struct structure, optional and
conditional markers) of EVERY command of every protocol version, taken from the tree at the time it is run.

This is a golden snapshot of the unchanged tree (/repo at de003ba), not a transcription of the specification: C07 uses it so
that an edit to a command table or to a struct definition - which the round-trip checks cannot see, because they draw their
expectations from the same tables - shows up as a difference.  Re-run only after reviewing such a difference."""
import json, os, sys
sys.path.insert(0, os.environ.get("VERIF_REPO", "/repo"))
sys.path.insert(0, os.path.dirname(os.path.dirname(os.path.abspath(__file__))))
import bellows.ezsp as e
from vlib import values
out = {}
for v, cls in sorted(e.EZSP._BY_VERSION.items()):
    out[str(v)] = {name: [cid, values.schema_shape(tx), values.schema_shape(rx)] for name, (cid, tx, rx) in sorted(cls.COMMANDS.items())}
path = os.path.join(os.path.dirname(os.path.dirname(os.path.abspath(__file__))), "vlib", "ezsp_shapes_all.json")
json.dump(out, open(path, "w"), indent=0, sort_keys=True)
print("wrote", path, sum(len(x) for x in out.values()), "entries")
