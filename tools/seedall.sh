#!/bin/bash
# Re-runs every stored seeded change against its property's check (quick tier) and refreshes meta.json verdicts.
# usage: tools/seedall.sh [-P n] [pattern]     (pattern = shell glob over seeded/ directory names, default *)
cd "$(dirname "$0")/.."
P=4; [ "$1" = "-P" ] && { P=$2; shift 2; }
pat=${1:-*}
mkdir -p /tmp/verif_seedall
run() { n=$(basename $1); id=${n%%-*}; extra=""; [ -f seeded/$n/checks.txt ] && extra="--checks $(cat seeded/$n/checks.txt)"; tools/seedcheck.py $id seeded/$n $extra --keep --name $n > /tmp/verif_seedall/$n.log 2>&1; echo "$n $(grep -E '^(check |NOT CONF|PATCH)' /tmp/verif_seedall/$n.log | tr '\n' ' ')"; }
export -f run
ls -d seeded/$pat | xargs -P $P -I{} bash -c 'run {}'
