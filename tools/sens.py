#!/venv/bin/python
"""Sensitivity runner: applies each mutant of mutants/<ID>.json to a scratch copy of
/repo/bellows (under /tmp, removed afterwards), runs `./check <ID> quick` against it via
VERIF_REPO and reports caught / missed.  Never touches /repo or /verif/evidence.

mutants/<ID>.json: [{"name":..., "file": "bellows/ash.py", "old": "...", "new": "...", "count": 1}]
usage: tools/sens.py C03 [name-substring] [--tier quick] [--seed N]
"""
import concurrent.futures as cf
import json
import os
import shutil
import subprocess
import sys
import tempfile

ROOT = os.path.dirname(os.path.dirname(os.path.abspath(__file__)))


def run_one(pid, m, tier, seed):
    d = tempfile.mkdtemp(prefix="verif_mut_")
    try:
        shutil.copytree("/repo/bellows", os.path.join(d, "bellows"),
                        ignore=shutil.ignore_patterns("__pycache__"))
        edits = m.get("edits") or [m]
        for e in edits:
            p = os.path.join(d, e["file"])
            s = open(p).read()
            n = s.count(e["old"])
            if n != e.get("count", 1):
                return m["name"], "BAD-MUTANT", f"{e['file']}: pattern occurs {n} times"
            s = s.replace(e["old"], e["new"])
            open(p, "w").write(s)
        env = dict(os.environ, VERIF_REPO=d, VERIF_EVIDENCE_DIR=os.path.join(d, "ev"),
                   VERIF_FOUND_DIR=os.path.join(d, "found"), VERIF_SEED=str(seed),
                   VERIF_NPROC=os.environ.get("SENS_NPROC", "4"))
        pr = subprocess.run([os.path.join(ROOT, "check"), pid, tier], env=env, cwd=ROOT,
                            capture_output=True, text=True, timeout=3600)
        out = pr.stdout + pr.stderr
        sigs = [l.strip() for l in out.splitlines() if l.strip().startswith("signature:")]
        verdict = {0: "MISSED", 1: "caught", 2: "HARNESS-ERROR"}.get(pr.returncode, f"rc={pr.returncode}")
        tail = "; ".join(sigs[:3]) if sigs else out.strip().splitlines()[-1:] and out.strip().splitlines()[-1][:300]
        return m["name"], verdict, tail
    finally:
        shutil.rmtree(d, ignore_errors=True)


def main():
    args = [a for a in sys.argv[1:] if not a.startswith("--")]
    pid = args[0].upper()
    sub = args[1] if len(args) > 1 else ""
    tier = "quick"
    seed = 1
    for i, a in enumerate(sys.argv):
        if a == "--tier":
            tier = sys.argv[i + 1]
        if a == "--seed":
            seed = int(sys.argv[i + 1])
    args = [a for a in args if a not in (tier, str(seed))]
    muts = json.load(open(os.path.join(ROOT, "mutants", pid + ".json")))
    muts = [m for m in muts if sub in m["name"]]
    bad = 0
    with cf.ThreadPoolExecutor(max_workers=4) as ex:
        for name, verdict, tail in ex.map(lambda m: run_one(pid, m, tier, seed), muts):
            print(f"{pid} {name:40s} {verdict:14s} {tail}")
            if verdict != "caught":
                bad += 1
    print(f"{pid}: {len(muts) - bad}/{len(muts)} mutants caught")
    return 1 if bad else 0


if __name__ == "__main__":
    sys.exit(main())
