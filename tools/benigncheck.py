#!/venv/bin/python
"""Runs the checks against a property-PRESERVING change (false-alarm test).

usage: tools/benigncheck.py <dir with patch.diff, meta.json> [--all] [--keep --name <id>]

The patch is applied to a scratch copy of /repo HEAD under /tmp (removed afterwards); the repository's 254 baseline
tests must still pass there; then the quick tier of every check whose subject the patch touches (all 20 with --all) is
run against the copy.  Any exit code other than 0 is reported: 1 = false alarm, 2 = harness error."""
import json
import os
import shutil
import subprocess
import sys
import tempfile

ROOT = os.path.dirname(os.path.dirname(os.path.abspath(__file__)))
ALL = [f"C{i:02d}" for i in range(1, 21)]
BY_FILE = [
    ("bellows/ash.py", ["C01", "C02", "C03", "C04", "C05", "C09", "C10", "C11"]),
    ("bellows/uart.py", ["C09", "C10", "C11"]),
    ("bellows/ezsp/__init__.py", ["C06", "C08", "C09", "C10", "C14", "C16", "C17", "C19"]),
    ("bellows/ezsp/protocol.py", ["C06", "C07", "C08", "C09", "C10", "C19"]),
    ("bellows/ezsp/config.py", ["C09", "C16"]),
    ("bellows/config/", ["C09", "C16"]),
    ("bellows/ezsp/v", ["C06", "C07", "C08", "C09", "C12", "C13", "C14", "C15", "C16", "C17", "C18", "C19"]),
    ("bellows/zigbee/application.py", ["C12", "C13", "C14", "C15", "C17", "C18", "C19"]),
    ("bellows/zigbee/", ["C14"]),
    ("bellows/multicast.py", ["C15"]),
    ("bellows/thread.py", ["C20"]),
    ("bellows/types/", ["C07", "C08", "C12", "C13", "C14", "C15", "C16", "C18"]),
]


def sh(cmd, **kw):
    return subprocess.run(cmd, shell=True, capture_output=True, text=True, **kw)


def main():
    src = os.path.abspath(sys.argv[1])
    keep = "--keep" in sys.argv
    name = sys.argv[sys.argv.index("--name") + 1] if "--name" in sys.argv else os.path.basename(src)
    patch = os.path.join(src, "patch.diff")
    files = [l[6:].strip() for l in open(patch) if l.startswith("+++ b/")]
    checks = set()
    for f in files:
        for pre, cs in BY_FILE:
            if f.startswith(pre):
                checks.update(cs)
    if "--all" in sys.argv:
        checks = set(ALL)
    checks = sorted(checks)
    work = tempfile.mkdtemp(prefix="verif_benign_")
    try:
        bad = os.path.join(work, "patched")
        sh(f"mkdir -p {bad} && cd /repo && git archive HEAD | tar -x -C {bad}")
        r = sh(f"cd {bad} && patch -p1 --no-backup-if-mismatch < {patch}")
        if r.returncode != 0:
            print("PATCH DOES NOT APPLY", r.stdout[-300:])
            return 2
        b = sh(f"{ROOT}/tools/baseline.py {bad}")
        if "254/254" not in b.stdout:
            b = sh(f"{ROOT}/tools/baseline.py {bad}")
        base = b.stdout.strip().splitlines()[0] if b.stdout.strip() else b.stderr[-200:]
        print(base)
        results = {}
        for c in checks:
            envs = dict(os.environ, VERIF_REPO=bad, VERIF_EVIDENCE_DIR=os.path.join(work, "ev"), VERIF_FOUND_DIR=os.path.join(work, "found"))
            pr = subprocess.run([os.path.join(ROOT, "check"), c, "quick"], env=envs, cwd=ROOT, capture_output=True, text=True)
            sigs = [l.strip()[11:] for l in (pr.stdout + pr.stderr).splitlines() if l.strip().startswith("signature:")]
            verdict = {0: "quiet", 1: "ALARM", 2: "HARNESS-ERROR"}.get(pr.returncode, str(pr.returncode))
            results[c] = {"verdict": verdict, "signatures": sigs[:4]}
            if verdict != "quiet":
                print(f"check {c}: {verdict} {sigs[:3]}")
                tail = (pr.stdout + pr.stderr).strip().splitlines()
                print("   " + "\n   ".join(x[:400] for x in tail[-6:]))
        print("checks run:", ",".join(checks), "-> quiet:", sum(1 for v in results.values() if v["verdict"] == "quiet"), "of", len(results))
        if keep:
            dst = os.path.join(ROOT, "benign", name)
            os.makedirs(dst, exist_ok=True)
            shutil.copy(patch, os.path.join(dst, "patch.diff"))
            meta = {}
            mp = os.path.join(src, "meta.json")
            if os.path.exists(mp):
                try:
                    meta = json.load(open(mp))
                except Exception:
                    meta = {"raw": open(mp).read()[:2000]}
            meta["verified"] = {"baseline_on_patched": base, "checks": results,
                                "repo_head": sh("git -C /repo rev-parse --short HEAD").stdout.strip()}
            json.dump(meta, open(os.path.join(dst, "meta.json"), "w"), indent=1)
        return 0 if all(v["verdict"] == "quiet" for v in results.values()) and "254/254" in base else 1
    finally:
        shutil.rmtree(work, ignore_errors=True)


if __name__ == "__main__":
    sys.exit(main())
