#!/venv/bin/python
"""Runs the repo's pinned test command and checks every BASELINE stable_pass test passes."""
import json, subprocess, sys, tempfile, os
import xml.etree.ElementTree as ET
repo = sys.argv[1] if len(sys.argv) > 1 else "/repo"
b = json.load(open("/root/.vp/BASELINE.json"))
with tempfile.TemporaryDirectory() as d:
    x = os.path.join(d, "j.xml")
    subprocess.run(f"cd {repo} && PYTHONPATH={repo} /venv/bin/python -m pytest -ra -q -p no:cacheprovider --timeout=900 --continue-on-collection-errors --junitxml={x}",
                   shell=True, capture_output=True, text=True)
    passed = set()
    for tc in ET.parse(x).getroot().iter("testcase"):
        if not list(tc):
            passed.add(f"{tc.get('classname')}::{tc.get('name')}")
missing = [t for t in b["stable_pass"] if t not in passed]
print(f"baseline: {len(b['stable_pass']) - len(missing)}/{len(b['stable_pass'])} stable tests pass")
for m in missing[:20]:
    print("  NOT PASSING:", m)
sys.exit(1 if missing else 0)
