"""C05 — sends end within the retry budget; a failed link stays silent until reset.

Real AshProtocol on the virtual-time loop against a scripted peer whose reaction to the
k-th DATA write is given by the plan.  The oracle is a set of invariants over one ordered
log of (host writes, frames delivered to the host, upward notifications, send outcomes)."""
from __future__ import annotations

import asyncio
import itertools

from hypothesis import strategies as st

from vlib import refash, vloop
from vlib.ashh import make_host
from vlib.run import Result

LEVEL = "fault_enumeration"
RULE = (
    "a plan = 1..6 sends at generated times (some after a failure, some after a later RSTACK) + for the k-th DATA "
    "write overall a peer reaction from {covering ACK, stale ACK, NAK, silence, ERROR(code), RSTACK(code)} delivered "
    "at f x (current acknowledgement timeout), f in {0, 0.25, 1-eps, 1, 1+eps, 0.6}; exhaustive part: all 6^5 reaction "
    "sequences for one send at f=0.5 (and at every f in thorough); the host's own reset requests (RST written) at generated "
    "instants, enumerated for a link that failed by ERROR / silence / NAKs with sends before and after the RSTACK. Non-trivial = at least one retransmission happened; "
    "distinct by plan."
)
ASSUMPTIONS = [
    "the implementation's current timeout value is read only to PLACE peer events (generator hint); the oracle "
    "uses the specification constants 0.4 s / 3.2 s / 5 attempts only",
]

from vlib import cfg

T_MIN, T_MAX = 0.4, 3.2  # ASH specification
BUDGET = cfg.ash_attempts()  # "the configured number of attempts"
EPS = 1e-6
KINDS = ["ack", "stale", "nak", "none", "error", "rstack"]
FS = [0.0, 0.25, 1 - EPS, 1.0, 1 + EPS, 0.6, 0.5]
ERR_TIMEOUT_CODE = 0x51


def payload_for(i, n):
    return bytes([0xA0 + i, 0x7E, 0x11, i]) + bytes((i * 17 + j) & 0xFF for j in range(n))


async def scenario(loop, plan, log):
    proto, tr, up = make_host(loop)
    state = {"k": 0, "iter": -1}
    reactions = plan["reactions"]

    def deliver(desc, raw):
        if loop.iterations == state["iter"]:
            loop.call_soon(deliver, desc, raw)
            return
        state["iter"] = loop.iterations
        n0 = len(up.events)
        log.append(("rx", loop.time(), desc))
        proto.data_received(refash.wire(raw))
        for _, kind, val in up.events[n0:]:
            log.append(("up", loop.time(), kind, val, "rx"))
        state["seen_up"] = len(up.events)

    state["seen_up"] = 0

    def flush_spontaneous():
        for _, kind, val in up.events[state["seen_up"]:]:
            log.append(("up", loop.time(), kind, val, "spont"))
        state["seen_up"] = len(up.events)

    def sink(data):
        flush_spontaneous()
        frames = refash.split_wire(data)
        for f in frames:
            log.append(("w", loop.time(), f))
            if f.get("kind") != "DATA":
                continue
            k = state["k"]
            state["k"] += 1
            kind, f_i, code = reactions[k] if k < len(reactions) else ("ack", 1, 0)
            when = loop.time() + FS[f_i] * proto._t_rx_ack
            frm = f["frm"]
            if kind == "ack":
                loop.call_at(when, deliver, ["ACK", (frm + 1) % 8], refash.enc_ack((frm + 1) % 8))
            elif kind == "stale":
                loop.call_at(when, deliver, ["ACK", frm], refash.enc_ack(frm))
            elif kind == "nak":
                loop.call_at(when, deliver, ["NAK", frm], refash.enc_nak(frm))
            elif kind == "error":
                loop.call_at(when, deliver, ["ERROR", code], refash.enc_error(code))
            elif kind == "rstack":
                loop.call_at(when, deliver, ["RSTACK", code], refash.enc_rstack(code))

    tr.sink = sink
    tasks = []

    async def one(i, s):
        await asyncio.sleep(s["at"])
        flush_spontaneous()
        log.append(("sub", loop.time(), i))
        try:
            await proto.send_data(payload_for(i, s["len"]))
            flush_spontaneous()
            log.append(("done", loop.time(), i, "ok"))
        except asyncio.CancelledError:
            raise
        except BaseException as e:
            flush_spontaneous()
            log.append(("done", loop.time(), i, type(e).__name__))

    for i, s in enumerate(plan["sends"]):
        tasks.append(asyncio.ensure_future(one(i, s)))
    for t_abs, code in plan.get("rstacks", []):
        loop.call_at(t_abs, deliver, ["RSTACK", code], refash.enc_rstack(code))

    def host_reset():
        # the host's own upper layer asks the NCP to reset (writes RST): a request is not the acknowledgement - a failed
        # link stays failed, and silent, until the RSTACK has arrived
        flush_spontaneous()
        log.append(("hr", loop.time()))
        proto.send_reset()

    for t_abs in plan.get("host_resets", []):
        loop.call_at(t_abs, host_reset)
    await asyncio.wait(tasks, timeout=plan.get("horizon", 400))
    flush_spontaneous()
    for i, t in enumerate(tasks):
        if not t.done():
            log.append(("pending", loop.time(), i))
    await asyncio.sleep(30)  # nothing may be written after everything ended
    flush_spontaneous()
    return proto


def check(plan) -> Result:
    r = Result()
    log = []
    try:
        vloop.run_case(lambda loop: scenario(loop, plan, log), horizon=2000)
    except vloop.Hang:
        r.bad("C05:hang", f"{plan}")
        return r
    except Exception as e:
        r.bad(f"C05:harness-or-impl-exception:{type(e).__name__}", f"{plan}: {e!r}")
        return r
    analyse(plan, log, r)
    return r


def analyse(plan, log, r: Result):
    sends = plan["sends"]
    pay2i = {payload_for(i, s["len"]): i for i, s in enumerate(sends)}
    writes = {i: [] for i in range(len(sends))}  # i -> [(pos, t, frame)]
    done = {}
    sub = {}
    order_first = []
    for pos, e in enumerate(log):
        if e[0] == "w":
            f = e[2]
            if f.get("kind") == "DATA":
                i = pay2i.get(f["payload"])
                if i is None:
                    r.bad("C05:unknown-payload-written", f"{f}")
                    return
                if not writes[i]:
                    order_first.append(i)
                writes[i].append((pos, e[1], f))
            elif f.get("kind") in ("ACK", "NAK"):
                r.bad("C05:unexpected-ack-written", f"{f}")
            elif f.get("kind") == "BAD":
                r.bad("C05:undecodable-frame-written", f"{f}")
        elif e[0] == "done":
            done[e[2]] = (pos, e[1], e[3])
        elif e[0] == "sub":
            sub[e[2]] = (pos, e[1])
        elif e[0] == "pending":
            r.bad("C05:send-never-ends", f"send {e[2]} still pending at t={e[1]}; plan {plan}")
    if r.violations:
        return

    # failure / recovery timeline by log position
    fail_pos = []  # (pos, t, why)
    rstack_pos = []
    for pos, e in enumerate(log):
        if e[0] == "rx" and e[2][0] == "ERROR":
            fail_pos.append((pos, e[1], "error"))
            ups = [x for x in log[pos + 1:pos + 3] if x[0] == "up" and x[4] == "rx"]
            if len(ups) != 1 or ups[0][3] != e[2][1] or ups[0][2] != "reset":
                r.bad("C05:error-not-reported-exactly-once", f"ERROR {e[2]} at {e[1]}: upward {ups}")
        elif e[0] == "rx" and e[2][0] == "RSTACK":
            rstack_pos.append((pos, e[1]))
        elif e[0] == "up" and e[4] == "spont":
            fail_pos.append((pos, e[1], "budget"))
            if e[2] != "reset" or e[3] != ERR_TIMEOUT_CODE:
                r.bad("C05:budget-exhaustion-wrong-reason", f"{e}")

    def failed_at(pos):
        """link failed (and not yet recovered by an RSTACK) just before log position pos"""
        lf = max([p for p, _, _ in fail_pos if p < pos], default=None)
        if lf is None:
            return False
        return not any(lf < p < pos for p, _ in rstack_pos)

    retrans = 0
    for i, ws in writes.items():
        if not ws:
            continue
        frm = ws[0][2]["frm"]
        if len(ws) > BUDGET:
            r.bad("C05:more-attempts-than-budget", f"send {i}: {len(ws)} DATA writes")
        for n, (pos, t, f) in enumerate(ws):
            if f["frm"] != frm:
                r.bad("C05:frame-number-changed-on-retry", f"send {i}: {[w[2]['frm'] for w in ws]}")
            if f["retx"] != (1 if n else 0):
                r.bad("C05:retx-flag-wrong", f"send {i} attempt {n + 1}: reTx={f['retx']}")
            if failed_at(pos):
                r.bad("C05:data-written-while-failed", f"send {i} attempt {n + 1} at t={t}")
            if n:
                retrans += 1
                ppos, pt, _ = ws[n - 1]
                nak_now = any(e[0] == "rx" and e[2][0] == "NAK" and e[1] == t for e in log[ppos:pos])
                dt = t - pt
                if not nak_now and not (T_MIN - 1e-9 <= dt <= T_MAX + 1e-9):
                    r.bad("C05:retry-spacing-out-of-bounds", f"send {i} attempt {n + 1}: {dt:.6f}s after previous, no NAK at that instant")
                if nak_now:
                    r.cls("retry-on-nak")
                else:
                    r.cls("retry-on-timeout")
    # one outstanding at a time, consecutive numbers
    prev = None
    for i in order_first:
        pos, t, f = writes[i][0]
        if prev is not None:
            if prev not in done or done[prev][1] > t + 1e-9:
                r.bad("C05:second-frame-while-first-outstanding", f"send {i} first written at {t}, send {prev} not finished")
            lastprev = writes[prev][-1][0]
            if any(w[0] > pos for w in writes[prev]):
                r.bad("C05:interleaved-frames", f"sends {prev} and {i}")
            exp = (writes[prev][0][2]["frm"] + 1) % 8
            if any(writes[prev][0][0] < p < pos for p, _ in rstack_pos):
                exp = 0
            if f["frm"] != exp:
                r.bad("C05:frame-number-not-consecutive", f"send {i} uses {f['frm']}, expected {exp}")
        else:
            exp = 0
            if f["frm"] != exp:
                r.bad("C05:first-frame-number-not-zero", f"send {i} uses {f['frm']}")
        prev = i
    # outcomes
    for i in range(len(sends)):
        if i not in done:
            continue
        dpos, dt, outcome = done[i]
        ws = writes[i]
        cover = []
        if ws:
            want = (ws[0][2]["frm"] + 1) % 8
            cover = [(pos, e[1]) for pos, e in enumerate(log)
                     if e[0] == "rx" and e[2][0] in ("ACK", "NAK") and e[2][1] == want and pos > ws[0][0]]
        if outcome == "ok":
            if not ws:
                r.bad("C05:returned-without-transmitting", f"send {i}")
            elif not any(t <= dt + 1e-9 for _, t in cover):
                r.bad("C05:returned-without-covering-ack", f"send {i} returned at {dt}, covering acks at {cover}")
        else:
            r.cls("send-raised")
            # a raise must be explained
            err_here = any(p < dpos and abs(t - dt) < 1e-9 and why == "error" for p, t, why in fail_pos)
            bud_here = any(abs(t - dt) < 1e-9 and why == "budget" for p, t, why in fail_pos)
            spos = sub[i][0]
            if ws and len(ws) == BUDGET and bud_here:
                r.cls("budget-exhausted")
                last = [e for e in log[ws[-1][0]:dpos] if e[0] == "rx" and e[2][0] == "NAK"]
                if last:
                    r.cls("nak-on-last-attempt")
            elif ws and err_here:
                r.cls("failed-by-error-frame")
            elif not ws and (failed_at(dpos) or err_here or bud_here):
                r.cls("queued-send-failed")
            else:
                r.bad("C05:send-raised-without-cause", f"send {i}: {outcome} at {dt} after {len(ws)} attempts; log tail {log[max(0, dpos - 6):dpos + 1]}")
        # progress: covering ACK delivered while outstanding and link not failed
        for cpos, ct in cover:
            if log[cpos][2][0] != "ACK":
                continue
            if cpos > dpos:
                break
            if any(p < cpos and p > ws[0][0] for p, _, _ in fail_pos):
                continue
            # an ACK delivered at the very instant the timeout expires may legitimately count as late
            if any(abs(t - ct) < 1e-9 and p > cpos for p, t, _ in ws) or any(abs(t - ct) < 1e-9 for _, t, _ in fail_pos):
                r.cls("ack-at-timeout-instant")
                continue
            if outcome != "ok" or abs(dt - ct) > 1e-9:
                r.bad("C05:covering-ack-did-not-complete-send", f"send {i}: ACK at {ct}, outcome {outcome} at {dt}")
            break
    # every failure: all sends submitted before it and unfinished end (raise) at that time
    for fpos, ft, why in fail_pos:
        r.cls("failure:" + why)
        for i in range(len(sends)):
            if i in sub and sub[i][0] < fpos and (i not in done or done[i][0] > fpos):
                if i not in done or done[i][2] == "ok" and not any(p > fpos for p, _, _ in writes[i]) or done[i][1] > ft + 1e-9:
                    # allowed only if an RSTACK recovered the link before the send reached the wire
                    if i in done and done[i][2] == "ok" and any(fpos < p for p, _ in rstack_pos):
                        continue
                    r.bad("C05:waiting-send-not-failed", f"send {i} after failure at {ft}: {done.get(i)}")
    # told exactly once per failure event
    bud_times = [t for _, t, why in fail_pos if why == "budget"]
    for t in set(bud_times):
        n_exh = sum(1 for i, ws in writes.items() if len(ws) == BUDGET and i in done and abs(done[i][1] - t) < 1e-9 and done[i][2] != "ok")
        if bud_times.count(t) != max(n_exh, 1):
            r.bad("C05:failure-reported-more-than-once", f"{bud_times.count(t)} notifications at t={t}")
    # a spontaneous failure must come from an exhausted send
    for fpos, ft, why in fail_pos:
        if why == "budget":
            if not any(len(ws) == BUDGET and i in done and abs(done[i][1] - ft) < 1e-9 and done[i][2] != "ok" for i, ws in writes.items()):
                r.bad("C05:failure-declared-before-budget", f"at {ft}: writes {[len(w) for w in writes.values()]}")
    if len([1 for _, _, w in fail_pos]) and rstack_pos and any(p > fail_pos[0][0] for p, _ in rstack_pos):
        r.cls("recovered-by-rstack")
    r.nontrivial = retrans > 0
    if plan.get("host_resets"):
        r.cls("host-reset-request")
        if any(e[0] == "hr" and failed_at(pos) for pos, e in enumerate(log)):
            r.cls("host-reset-request-while-failed")
    for k, fi, _ in plan["reactions"][:sum(len(w) for w in writes.values())]:
        r.cls("react:" + k)
        if fi in (2, 3, 4):
            r.cls("boundary-timing")


def replay(plan) -> Result:
    return check(plan)


# --------------------------------------------------------------------- generators

reaction = st.tuples(
    st.sampled_from(KINDS + ["ack", "none", "nak"]),
    st.integers(0, 5),
    st.sampled_from([0x51, 0x80, 0x02, 0x0B, 0x00]),
).map(list)


@st.composite
def plans(draw):
    n = draw(st.integers(1, 6))
    sends = []
    t = 0.0
    for i in range(n):
        t += draw(st.sampled_from([0.0, 0.0, 0.013, 0.7, 3.3, 17.0, 40.0]))
        sends.append({"at": round(t, 3), "len": draw(st.integers(0, 12))})
    reactions = draw(st.lists(reaction, min_size=0, max_size=5 * n))
    rst = draw(st.lists(st.tuples(st.sampled_from([5.051, 20.017, 30.019, 45.023, 60.029]), st.sampled_from([0x0B, 0x02])).map(list),
                        max_size=2, unique_by=lambda x: x[0]))
    plan = {"sends": sends, "reactions": reactions, "rstacks": sorted(rst)}
    if draw(st.integers(0, 2)) == 0:
        plan["host_resets"] = sorted(draw(st.lists(st.sampled_from([0.3, 4.9, 15.0, 19.9, 25.0, 33.0, 44.0]), min_size=1, max_size=2, unique=True)))
    return plan


@st.composite
def drift_plans(draw):
    """Many promptly acknowledged sends drive the adaptive timeout down, then silence/NAKs:
    the retry spacing must still respect the protocol minimum (and maximum after doubling)."""
    n = draw(st.integers(10, 24))
    gap = draw(st.sampled_from([0.0, 0.001, 0.05]))
    sends = [{"at": round(i * gap, 3), "len": draw(st.integers(0, 4))} for i in range(n)]
    fast = draw(st.integers(8, n - 1))
    reactions = [["ack", draw(st.sampled_from([0, 0, 1])), 0] for _ in range(fast)]
    reactions += draw(st.lists(reaction, min_size=1, max_size=12))
    return {"sends": sends, "reactions": reactions, "rstacks": []}


def _worker_drift(ctx, n):
    ctx.search(drift_plans(), check, max_examples=n)


def _worker_random(ctx, n):
    ctx.search(plans(), check, max_examples=n)


def _worker_exh(ctx, job):
    fi, firsts = job
    kinds = KINDS
    for first in firsts:
        for rest in itertools.product(range(6), repeat=4):
            seq = [first] + list(rest)
            plan = {"sends": [{"at": 0.0, "len": 3}, {"at": 0.5, "len": 2}],
                    "reactions": [[kinds[k], fi, 0x51 if kinds[k] == "error" else 0x0B] for k in seq],
                    "rstacks": []}
            ctx.check(plan, check(plan), sample=(seq == [2, 3, 1, 2, 0]))


def _worker_hostreset(ctx, job):
    """The link fails (ERROR frame / budget used up by silence / by NAKs), the host asks for a reset, and sends are
    submitted before and after the NCP's RSTACK (or the RSTACK never comes)."""
    how, rstack = job
    first = {"error": [["error", 1, 0x51]], "silence": [["none", 0, 0]] * 5, "nak": [["nak", 1, 0]] * 5,
             "error-late": [["none", 0, 0], ["nak", 1, 0], ["error", 1, 0x52]]}[how]
    for queued in (0, 1, 2):
        for t_before in (20.0005, 20.5, 21.999):
            for n_before in (1, 2):
                sends = [{"at": 0.0, "len": 3}] + [{"at": 0.2 + 0.1 * q, "len": 1} for q in range(queued)]
                sends += [{"at": round(t_before + 0.0003 * k, 4), "len": 2 + k} for k in range(n_before)]
                sends += [{"at": 23.0, "len": 5}, {"at": 23.0, "len": 6}]
                plan = {"sends": sends, "reactions": list(first), "rstacks": [[22.0, 0x0B]] if rstack else [], "host_resets": [20.0]}
                ctx.check(plan, check(plan), sample=(queued == 1 and n_before == 1 and t_before == 20.5))


def run(ctx):
    quick = ctx.tier == "quick"
    half = len(FS) - 1
    fis = [half] if quick else list(range(len(FS)))
    jobs = [(fi, [k]) for fi in fis for k in range(6)]
    ctx.parallel(_worker_exh, jobs)
    ctx.exhaustive["all 6^5 reaction sequences for one send (plus one queued send)"] = True
    ctx.parallel(_worker_hostreset, [(how, rs) for how in ("error", "silence", "nak", "error-late") for rs in (True, False)])
    ctx.parallel(_worker_random, [600] * 16 if quick else [20000] * 16)
    ctx.parallel(_worker_drift, [60] * 16 if quick else [4000] * 16)
