"""C12 — a unicast is reported delivered only on its own delivery confirmation.

ControllerApplication.send_packet() runs against vlib.simncp at the gateway boundary.  The
plan gives, per request, the enqueue status of every attempt and what confirmation (if any)
the NCP sends; a small reference computes the acceptable outcome; the simulator's frame log
is checked for interleaving of one request's set-up frames with another's."""
from __future__ import annotations

import asyncio

from hypothesis import strategies as st

from vlib import refezsp, simncp, vloop, zshim
from vlib.run import Result

LEVEL = "exploration"
RULE = (
    "a plan = protocol version (quick 4, 8, 13, 14 and an NCP reporting 15; thorough 4..16) and 1..6 send_packet calls started on a 10 ms grid to "
    "distinct devices: unicast plain / with source route / with extended timeout, IEEE-addressed to a known or unknown "
    "device, multicast, broadcast; per attempt an enqueue status {accepted, each of the three busy codes, refusals incl. "
    "undefined codes}; per request a confirmation plan {success, failure status, none, duplicate, before the enqueue reply, "
    "wrong tag, wrong destination (another node ID or a small table index, then optionally the own failure), unsolicited}, "
    "foreign confirmations carrying any outgoing-message type (direct, via address table, via binding, multicast, "
    "broadcast, undefined). Non-trivial = at least two overlapping requests or a retry or a "
    "mismatching confirmation; distinct by plan."
)
ASSUMPTIONS = [
    "ControllerApplication is constructed with the zigpy.util.Requests shim (vlib/zshim.py), whose context manager removes "
    "the pending entry on exit exactly like zigpy <= 0.7x did; zigpy's request limiter is trusted",
    "confirmation frames are encoded by the hand-written vlib/refezsp.enc_message_sent (pre-v14 and v14 orders)",
    "busy / refusal codes are given numerically per status family (EmberStatus 0x72, 0xA1, 0x18; sl_Status 0x0C03, 0x34, 0x19)",
]

from vlib import cfg

APS_ACK_TIMEOUT = cfg.aps_ack_timeout()
RETRY_DELAYS = cfg.retry_delays()  # "the fixed number of spaced retries"
BUSY = {False: [0x72, 0xA1, 0x18], True: [0x0C03, 0x34, 0x19]}
REFUSE = {False: [0x01, 0x66, 0x70, 0xEE], True: [0x01, 0x0C02, 0x02, 0x7777]}
# delivery-failure statuses a confirmation may carry: DELIVERY_FAILED, generic failure, an undefined code, MAC_INDIRECT_TIMEOUT
# (what a sleepy end device produces), MAC_NO_ACK_RECEIVED
FAILCONF = {False: [0x66, 0x01, 0xEE, 0x42, 0x40], True: [0x0C02, 0x01, 0x7777, 0x41, 0x39]}


def dev_nwk(i):
    return 0x1001 + i


def dev_ieee(i):
    import bellows.types as t

    return t.EUI64.convert(f"00:11:22:33:44:55:66:{i + 1:02x}")


class SendSim(simncp.SimNcp):
    def __init__(self, loop, version, plan):
        super().__init__(loop, version)
        self.plan = plan
        self.attempts = {}  # request index -> attempts seen
        self.frames = []    # (time, name, request index or None)
        self.accepted = {}  # request index -> (time, tag)
        self.confs = []
        self.v14 = version >= 14

    def _req_of_nwk(self, nwk):
        i = int(nwk) - 0x1001
        return i if 0 <= i < len(self.plan["reqs"]) else None

    def _req_of_ieee(self, ieee):
        b = bytes(ieee.serialize())
        i = b[0] - 1
        return i if 0 <= i < len(self.plan["reqs"]) else None

    def note(self, name, i):
        self.frames.append((self.loop.time(), name, i))

    # ---- set-up commands
    def cmd_setSourceRoute(self, destination, relayList):
        self.note("setSourceRoute", self._req_of_nwk(destination))
        return {"status": "OK"}

    def cmd_getExtendedTimeout(self, remoteEui64):
        self.note("getExtendedTimeout", self._req_of_ieee(remoteEui64))
        rx = self.cls.COMMANDS["getExtendedTimeout"][2]
        return {k: (0 if k != "status" else "OK") for k in rx}

    def cmd_lookupNodeIdByEui64(self, eui64):
        i = self._req_of_ieee(eui64)
        self.note("lookupNodeIdByEui64", i)
        return {"nodeId": dev_nwk(i) if (i is not None and self.plan["reqs"][i].get("in_table", True)) else 0xFFFF}

    def cmd_setExtendedTimeout(self, remoteEui64, extendedTimeout):
        self.note("setExtendedTimeout", self._req_of_ieee(remoteEui64))
        rx = self.cls.COMMANDS["setExtendedTimeout"][2]
        return {k: "OK" for k in rx}

    def cmd_getConfigurationValue(self, configId):
        return {"status": "OK", "value": 8}

    def cmd_replaceAddressTableEntry(self, **kw):
        i = self._req_of_ieee(kw["newEui64"])
        self.note("replaceAddressTableEntry", i)
        rx = self.cls.COMMANDS["replaceAddressTableEntry"][2]
        import bellows.types as t

        vals, _ = t.deserialize_dict(b"\x00" * 64, rx)
        return dict(vals)

    # ---- send commands
    def _send_cmd(self, name, i, tag, dest):
        self.note(name, i)
        req = self.plan["reqs"][i]
        k = self.attempts.get(i, 0)
        self.attempts[i] = k + 1
        sts = req["enqueue"]
        st_ = sts[k] if k < len(sts) else 0
        conf = req.get("conf", "success")
        seq = self.raw[-1][1][0]
        if st_ == 0:
            self.accepted[i] = (self.loop.time(), int(tag))
            if req["kind"].startswith("uni") or req["kind"] == "ieee-known":
                self._confirm(i, conf, int(tag), dest, early=(conf == "early"))
            if conf == "early":
                self.reply(seq, name, {"status": 0, "sequence": 7}, delay=0.004)
                return None
        return {"status": st_, "sequence": 7}

    def _confirm(self, i, conf, tag, dest, early=False):
        fail = FAILCONF[self.v14][self.plan["reqs"][i].get("failcode", 0) % 5]
        wm = self.plan["reqs"][i].get("wmtype", 0)  # outgoing-message type reported by a confirmation that is NOT this request's
        plan = {
            "success": [(0.02, dest, tag, 0)],
            "early": [(0.002, dest, tag, 0)],
            "failure": [(0.02, dest, tag, fail)],
            "none": [],
            "duplicate": [(0.02, dest, tag, 0), (0.03, dest, tag, 0), (0.04, dest, tag, fail)],
            # v14 carries 16-bit tags: a foreign tag may share its low byte with ours
            "wrong-tag": [(0.02, dest, ((tag + 1) % 256) if not (self.v14 and self.plan["reqs"][i].get("wide")) else (tag + 0x100 * (1 + self.plan["reqs"][i]["wide"] % 5)) & 0xFFFF, 0, wm)],
            "wrong-tag-then-failure": [(0.02, dest, ((tag + 1) % 256) if not self.v14 else (tag + 0x100) & 0xFFFF, 0, wm), (0.05, dest, tag, fail)],
            "wrong-dest": [(0.02, (dest + 0x100) & 0xFFFF, tag, 0, wm)],
            "wrong-dest-index": [(0.02, i + 1, tag, 0, wm)],
            "wrong-dest-then-failure": [(0.02, (dest + 0x100) & 0xFFFF, tag, 0, wm), (0.05, dest, tag, fail)],
            "wrong-then-right": [(0.02, dest, (tag + 3) % 256, fail, wm), (0.05, dest, tag, 0)],
            "late-success": [(60.0, dest, tag, 0)],
        }[conf]
        for d, dst, tg, status, *mt in plan:
            self.loop.call_later(d, self._send_conf, dst, tg, status, mt[0] if mt else 0)

    def _send_conf(self, dst, tag, status, mtype=0):
        aps = refezsp.aps_frame(260, 6, 1, 1, 0x0140, 0, 5)
        frame = refezsp.enc_message_sent(self.table_version, self.last_resp_seq, mtype=mtype, destination=dst, aps=aps, tag=tag, status=status)
        self.confs.append((self.loop.time(), dst, tag, status))
        if self.ezsp is not None:
            self.ezsp.frame_received(frame)

    def cmd_sendUnicast(self, **kw):
        dest = kw.get("indexOrDestination", kw.get("nwk"))
        tag = kw.get("messageTag", kw.get("message_tag"))
        return self._send_cmd("sendUnicast", self._req_of_nwk(dest), tag, int(dest))

    def cmd_sendMulticast(self, **kw):
        aps = kw.get("apsFrame", kw.get("aps_frame"))
        tag = kw.get("messageTag", kw.get("message_tag"))
        i = int(aps.groupId) - 0x2001
        return self._send_cmd("sendMulticast", i, tag, int(aps.groupId))

    def cmd_sendBroadcast(self, **kw):
        aps = kw.get("apsFrame", kw.get("aps_frame"))
        tag = kw.get("messageTag", kw.get("message_tag"))
        i = int(aps.clusterId) - 0x3001
        return self._send_cmd("sendBroadcast", i, tag, 0xFFFD)


def expected(req, v14):
    """-> (outcome kind, number of send attempts, time offset of acceptance relative to first attempt or None)"""
    kind = req["kind"]
    if kind == "ieee-unknown":
        return ("ValueError", 0, None)
    t = 0.0
    for k in range(len(RETRY_DELAYS)):
        st_ = req["enqueue"][k] if k < len(req["enqueue"]) else 0
        if st_ == 0:
            if kind in ("multicast", "broadcast"):
                return ("ok", k + 1, t)
            conf = req.get("conf", "success")
            if conf in ("success", "early", "duplicate", "wrong-then-right", "late-success"):
                return ("ok", k + 1, t)
            if conf in ("failure", "wrong-dest-then-failure", "wrong-tag-then-failure"):
                return ("DeliveryError", k + 1, t)
            return ("TimeoutError", k + 1, t)
        if st_ in BUSY[v14]:
            t += RETRY_DELAYS[k]
            continue
        return ("DeliveryError", k + 1, None)
    return ("DeliveryError", len(RETRY_DELAYS), None)


async def scenario(loop, plan, out):
    import bellows.ezsp as e
    import bellows.types as t
    import zigpy.types as zt

    v = plan["v"]
    sim = SendSim(loop, v, plan)
    ezsp = e.EZSP({"path": "/dev/null"})
    sim.attach(ezsp)
    ezsp._switch_protocol_version(v)
    ezsp.start_ezsp()
    app = zshim.make_app()
    app._ezsp = ezsp
    app.state.node_info.nwk = zt.NWK(0x0000)
    app.state.node_info.ieee = zt.EUI64.convert("00:11:22:33:44:55:66:00")
    ezsp.add_callback(app.ezsp_callback_handler)
    app.controller_event.set()
    out["sim"], out["app"] = sim, app
    results = {}
    out["results"] = results
    tasks = []
    for i, req in enumerate(plan["reqs"]):
        kind = req["kind"]
        if kind != "ieee-unknown":
            app.add_device(dev_ieee(i), dev_nwk(i))

    def mkpacket(i, req):
        kind = req["kind"]
        kw = dict(src=zt.AddrModeAddress(addr_mode=zt.AddrMode.NWK, address=0), src_ep=1, dst_ep=1, tsn=(i * 7 + 1) & 0xFF,
                  profile_id=260, cluster_id=6, data=zt.SerializableBytes(bytes([i, 1, 2, 3])))
        if kind in ("uni", "uni-route", "uni-ext"):
            kw["dst"] = zt.AddrModeAddress(addr_mode=zt.AddrMode.NWK, address=dev_nwk(i))
            if kind == "uni-route":
                kw["source_route"] = [zt.NWK(0x2222), zt.NWK(0x3333)]
            if kind == "uni-ext":
                kw["extended_timeout"] = True
        elif kind in ("ieee-known", "ieee-unknown"):
            kw["dst"] = zt.AddrModeAddress(addr_mode=zt.AddrMode.IEEE, address=zt.EUI64(dev_ieee(i)))
        elif kind == "multicast":
            kw["dst"] = zt.AddrModeAddress(addr_mode=zt.AddrMode.Group, address=0x2001 + i)
        else:
            kw["dst"] = zt.AddrModeAddress(addr_mode=zt.AddrMode.Broadcast, address=zt.BroadcastAddress.RX_ON_WHEN_IDLE)
            kw["cluster_id"] = 0x3001 + i
        return zt.ZigbeePacket(**kw)

    async def one(i, req):
        await asyncio.sleep(req["at"])
        t0 = loop.time()
        try:
            await app.send_packet(mkpacket(i, req))
            results[i] = ("ok", t0, loop.time(), None)
        except asyncio.CancelledError:
            results[i] = ("cancelled", t0, loop.time(), None)
            raise
        except BaseException as ex:
            results[i] = (type(ex).__name__, t0, loop.time(), repr(ex))

    for i, req in enumerate(plan["reqs"]):
        tasks.append(asyncio.ensure_future(one(i, req)))
        if req.get("cancel") is not None:
            # the caller gives the request up (an outer timeout) at an instant that may fall inside its set-up commands
            loop.call_later(req["at"] + req["cancel"], tasks[-1].cancel)
    if plan.get("disconnect") is not None:
        # the application is shut down (or reconnects) while requests still wait for their confirmation
        loop.call_later(plan["disconnect"], lambda: asyncio.ensure_future(app.disconnect()))
    for u in plan.get("unsolicited", []):
        loop.call_later(u[0], sim._send_conf, u[1], u[2], u[3], u[4] if len(u) > 4 else 0)
    await asyncio.wait(tasks, timeout=APS_ACK_TIMEOUT * 2 + 60)
    out["pending_tasks"] = [i for i, x in enumerate(tasks) if not x.done()]
    await asyncio.sleep(70)
    out["pending_left"] = len(app._pending)


def check(plan) -> Result:
    r = Result()
    out = {}
    try:
        vloop.run_case(lambda loop: scenario(loop, plan, out), horizon=1e7)
    except vloop.Hang:
        r.bad("C12:hang", f"{plan}")
        return r
    sim = out["sim"]
    v14 = plan["v"] >= 14
    if sim.unhandled:
        r.bad("C12:harness:unhandled-command", f"{sim.unhandled}")
        return r
    if out["pending_tasks"]:
        r.bad("C12:send-never-ends", f"requests {out['pending_tasks']}; plan {plan}")
        return r
    flags = set()
    for i, req in enumerate(plan["reqs"]):
        exp, n_att, t_acc = expected(req, v14)
        got = out["results"].get(i)
        kind = req["kind"]
        if got is None:
            r.bad("C12:no-result", f"request {i}")
            continue
        if req.get("cancel") is not None:
            flags.add("caller-cancelled")
            if got[0] == "cancelled":
                continue  # the caller gave up; what matters is what this does to the OTHER requests (frame-log checks below)
        if got[0] != exp:
            r.bad(f"C12:wrong-outcome:{got[0]}-instead-of-{exp}:{req['kind'].split('-')[0]}:{req.get('conf', '-') if exp in ('ok', 'TimeoutError', 'DeliveryError') and n_att and t_acc is not None else 'enqueue'}",
                  f"request {i} {req}: got {got}; plan {plan}")
            continue
        att = sim.attempts.get(i, 0)
        if att != n_att:
            r.bad("C12:wrong-number-of-attempts", f"request {i} {req}: {att} send attempts, expected {n_att}; plan {plan}")
        if n_att > 1:
            flags.add("retry")
            # spacing between attempts of this request
            ts = [tm for tm, name, j in sim.frames if j == i and name.startswith("send")]
            for k in range(1, len(ts)):
                if ts[k] - ts[k - 1] < RETRY_DELAYS[k - 1] - 1e-6 or ts[k] - ts[k - 1] < 0.01:
                    r.bad("C12:retry-not-spaced", f"request {i}: attempts at {ts}; plan {plan}")
        if exp == "TimeoutError":
            acc = sim.accepted.get(i)
            if acc is None or got[2] < acc[0] + APS_ACK_TIMEOUT - 1e-6:
                r.bad("C12:timeout-before-ack-timeout", f"request {i}: accepted {acc}, raised at {got[2]}; plan {plan}")
            flags.add("timeout")
        if exp == "ok" and kind not in ("multicast", "broadcast"):
            acc = sim.accepted.get(i)
            own = [c for c in sim.confs if c[1] == dev_nwk(i) and acc and c[2] == acc[1] and c[3] == 0]
            if not own or got[2] < own[0][0] - 1e-9:
                r.bad("C12:returned-before-own-confirmation", f"request {i}: returned at {got[2]}, own confirmations {own}; plan {plan}")
        if req.get("conf") in ("wrong-tag", "wrong-tag-then-failure", "wrong-dest", "wrong-dest-index", "wrong-dest-then-failure", "duplicate", "wrong-then-right", "late-success", "early"):
            flags.add("mismatching-or-odd-confirmation")
    if out["pending_left"]:
        r.bad("C12:pending-entry-left", f"{out['pending_left']} entries; plan {plan}")
    # interleaving: from the first set-up frame of a request attempt to its send frame only its own frames
    frames = sim.frames
    open_req = None
    gave_up = {i: res[2] for i, res in out["results"].items() if res[0] == "cancelled"}
    for tm, name, i in frames:
        if open_req is not None and open_req != i and open_req in gave_up and gave_up[open_req] <= tm + 1e-9:
            open_req = None  # that request's caller had given up by then: its set-up is over
        if name.startswith("send"):
            if open_req is not None and open_req != i:
                r.bad("C12:setup-interleaved-with-other-request", f"send of request {i} at {tm} inside set-up of request {open_req}; frames {frames}; plan {plan}")
                break
            open_req = None
        else:
            if open_req is not None and open_req != i:
                r.bad("C12:setup-interleaved-with-other-request", f"{name} of request {i} at {tm} inside set-up of request {open_req}; frames {frames}; plan {plan}")
                break
            open_req = i
    # a request that needs set-up repeats it for every attempt: each of its send frames directly follows set-up of its own
    needs_setup = set()
    seen_send = set()
    for tm, name, i in frames:
        if name.startswith("send"):
            seen_send.add(i)
        elif i not in seen_send:
            needs_setup.add(i)
    for k, (tm, name, i) in enumerate(frames):
        if name.startswith("send") and i in needs_setup:
            prev = frames[k - 1] if k else None
            if prev is None or prev[2] != i or prev[1].startswith("send"):
                r.bad("C12:attempt-sent-without-its-own-setup", f"send of request {i} at {tm} follows {prev}; frames {frames}; plan {plan}")
                break
    starts = sorted(q["at"] for q in plan["reqs"])
    if len(plan["reqs"]) >= 2:
        flags.add("overlap")
    if plan.get("unsolicited"):
        flags.add("unsolicited")
    if plan.get("disconnect") is not None:
        flags.add("disconnect-while-waiting")
    r.nontrivial = bool(flags)
    for f in flags:
        r.cls(f)
    r.cls(f"v{plan['v']}")
    for q in plan["reqs"]:
        r.cls("kind:" + q["kind"])
    return r


def replay(plan) -> Result:
    return check(plan)


@st.composite
def plans(draw, versions=(4, 8, 13, 14)):
    v = draw(st.sampled_from(list(versions)))
    v14 = v >= 14
    n = draw(st.integers(1, 6))
    reqs = []
    t = 0
    for i in range(n):
        t += draw(st.sampled_from([0, 0, 1, 2, 60, 2000]))
        kind = draw(st.sampled_from(["uni", "uni", "uni-route", "uni-ext", "ieee-known", "ieee-unknown", "multicast", "broadcast"]))
        enq = []
        for k in range(3):
            c = draw(st.sampled_from(["ok", "ok", "ok", "busy", "busy", "refuse"]))
            if c == "ok":
                enq.append(0)
                break
            if c == "busy":
                enq.append(draw(st.sampled_from(BUSY[v14])))
            else:
                enq.append(draw(st.sampled_from(REFUSE[v14])))
                break
        req = {"kind": kind, "at": round(t * 0.01 + 0.003, 4), "enqueue": enq,
               "conf": draw(st.sampled_from(["success", "success", "failure", "none", "duplicate", "early", "wrong-tag", "wrong-dest",
                                             "wrong-dest-index", "wrong-dest-then-failure", "wrong-tag-then-failure", "wrong-then-right", "late-success"])),
               "wide": draw(st.integers(0, 4)),
               "wmtype": draw(st.sampled_from([0, 0, 1, 2, 3, 4, 9])),
               **({"cancel": draw(st.sampled_from([0.0005, 0.0015, 0.0031, 0.0052, 0.021, 0.5]))} if draw(st.integers(0, 7)) == 0 else {}),
               "failcode": draw(st.integers(0, 4))}
        if kind == "uni-ext":
            req["in_table"] = draw(st.booleans())
        reqs.append(req)
    uns = draw(st.lists(st.tuples(st.sampled_from([0.001, 0.017, 0.5, 3.0]), st.sampled_from([0x1001, 0x1002, 0x1003, 0x7777]),
                                  st.integers(100, 108), st.sampled_from([0, 0x66]), st.sampled_from([0, 1, 2, 3, 4])).map(list), max_size=3))
    plan = {"v": v, "reqs": reqs, "unsolicited": uns}
    if draw(st.integers(0, 7)) == 0:
        # everything accepted at once, nothing ever confirmed, and the application disconnects in the meantime
        for q in reqs:
            q.update(kind="uni", enqueue=[0], conf="none")
        plan["unsolicited"] = []
        plan["disconnect"] = draw(st.sampled_from([0.5, 5.0, 60.0])) + max(q["at"] for q in reqs)
    return plan


def _worker(ctx, job):
    n, versions = job
    ctx.search(plans(versions), check, max_examples=n)


def run(ctx):
    quick = ctx.tier == "quick"
    versions = (4, 8, 13, 14, 15) if quick else tuple(range(4, 17))
    ctx.parallel(_worker, [(350, versions)] * 16 if quick else [(12000, versions)] * 16)
