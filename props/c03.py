"""C03 — ASH frames on the wire follow the specified layout bit for bit.

Oracle: vlib.refash (bitwise CRC, LFSR, stuffing, control-byte packing written from
UG101, anchored on the literal frames UG101 prints).  Every sub-check compares the
implementation with the reference in BOTH directions (impl-encode vs ref-encode,
impl-parse of ref bytes, ref-parse of impl bytes), so mirrored mistakes cannot cancel.
"""
from __future__ import annotations

import itertools

from hypothesis import strategies as st

from vlib import refash
from vlib.ashh import make_host
from vlib.run import Result

LEVEL = "exploration"
RULE = (
    "enumeration of the finite field space: DATA frmNum x reTx x ackNum (128) x payload lengths "
    "(quick: 0,1,2,3,7,8,127,128,129,200; thorough: every 0..200) x bodies {zeros, 0xFF, ramp, only "
    "reserved bytes, the LFSR sequence itself, Hypothesis-generated}; ACK/NAK res x nRdy x ackNum; RST; "
    "RSTACK/ERROR x 256 codes; all 256 control bytes x data lengths {0,2,4} for classification; "
    "all 1- and 2-bit corruptions of short frames of every type (before stuffing), checked through "
    "parse_frame and through data_received. A case = (sub-check, field tuple, payload); every case is "
    "non-trivial except zero-length/all-zero payload encodes; distinct by that tuple."
)
ASSUMPTIONS = [
    "reference encoder vlib/refash.py is correct; it is anchored on the five literal frames and the "
    "randomisation prefix printed in UG101 and on the CRC-CCITT check value 0x29B1 (self-test at setup)",
]

RES = bytes(refash.RESERVED)


def _hex(b):
    return bytes(b).hex()


# --------------------------------------------------------------------- sub-checks


def chk_data(frm, retx, ack, payload: bytes) -> Result:
    """(a)+(b)+(c) for one DATA frame."""
    import bellows.ash as ash

    plan = {"t": "data", "frm": frm, "retx": retx, "ack": ack, "payload": _hex(payload)}
    r = Result(nontrivial=bool(payload.strip(b"\x00")) or bool(frm or ack or retx),
               classes=["data"], key=[0, frm, retx, ack, _hex(payload)])
    ref = refash.enc_data(frm, retx, ack, payload)
    try:
        f = ash.DataFrame(frm_num=frm, re_tx=retx, ack_num=ack, ezsp_frame=payload)
        got = bytes(f.to_bytes())
    except Exception as e:
        r.bad("C03:encode-raises:DATA", f"{plan}: {e!r}")
        return r
    if got != ref:
        r.bad("C03:encode-mismatch:DATA", f"{plan}: impl {got.hex()} ref {ref.hex()}")
    # impl parses reference bytes (inverse)
    try:
        p = ash.parse_frame(ref)
        ok = (type(p) is ash.DataFrame and int(p.frm_num) == frm and int(p.re_tx) == retx
              and int(p.ack_num) == ack and bytes(p.ezsp_frame) == payload)
        if not ok:
            r.bad("C03:parse-mismatch:DATA", f"{plan}: parsed {p!r}")
    except Exception as e:
        r.bad("C03:parse-raises:DATA", f"{plan}: {e!r}")
    # reference parses impl bytes (cross)
    try:
        d = refash.decode_frame(got)
        if (d["kind"], d.get("frm"), d.get("retx"), d.get("ack"), d.get("payload")) != ("DATA", frm, retx, ack, payload):
            r.bad("C03:ref-decode-mismatch:DATA", f"{plan}: {d}")
    except refash.Bad as e:
        r.bad("C03:ref-decode-fails:DATA", f"{plan}: {e!r}")
    # wire: stuffing through _write_frame
    _wire_check(r, plan, f, ref, cancel=False)
    # receive path: the reference wire bytes of an in-sequence frame come back up as exactly the payload
    if frm == 0 and len(payload) <= 256:
        proto, tr, up = make_host()
        try:
            proto.data_received(refash.wire(ref))
            handed = [v for _, k, v in up.events if k == "data"]
            if handed != [payload]:
                r.bad("C03:receive-path-mismatch:DATA", f"{plan}: {len(refash.wire(ref))} wire bytes for a {len(payload)}-byte data field "
                      f"handed up {[h.hex()[:40] for h in handed]}, host wrote {tr.all_bytes().hex()}")
        except Exception as e:
            r.bad("C03:receive-raises:DATA", f"{plan}: {e!r}")
    return r


def _wire_check(r, plan, frame, ref_unstuffed, cancel):
    import bellows.ash as ash

    proto, tr, up = make_host()
    try:
        if cancel:
            proto._write_frame(frame, prefix=(ash.Reserved.CANCEL,))
        else:
            proto._write_frame(frame)
    except Exception as e:
        r.bad("C03:write-raises", f"{plan}: {e!r}")
        return
    got = tr.all_bytes()
    exp = refash.wire(ref_unstuffed, cancel=cancel)
    if got != exp or len(tr.writes) != 1:
        r.bad("C03:wire-mismatch", f"{plan}: impl {got.hex()} ref {exp.hex()}")
    body = got[1:-1] if cancel else got[:-1]
    if any(b in refash.RESERVED and b != refash.ESC for b in body):
        r.bad("C03:reserved-byte-on-wire", f"{plan}: {got.hex()}")
    # unstuffing is the inverse of stuffing, by both implementations
    try:
        if bytes(proto._unstuff_bytes(refash.stuff(ref_unstuffed))) != ref_unstuffed:
            r.bad("C03:unstuff-mismatch", f"{plan}")
        if refash.unstuff(bytes(proto._stuff_bytes(ref_unstuffed))) != ref_unstuffed:
            r.bad("C03:stuff-mismatch", f"{plan}")
    except Exception as e:
        r.bad("C03:unstuff-raises", f"{plan}: {e!r}")


def chk_acknak(kind, res, nrdy, ack) -> Result:
    import bellows.ash as ash

    plan = {"t": kind, "res": res, "nrdy": nrdy, "ack": ack}
    r = Result(nontrivial=True, classes=[kind], key=[1, kind, res, nrdy, ack])
    cls = ash.AckFrame if kind == "ack" else ash.NakFrame
    ref = (refash.enc_ack if kind == "ack" else refash.enc_nak)(ack, nrdy, res)
    try:
        f = cls(res=res, ncp_ready=nrdy, ack_num=ack)
        got = bytes(f.to_bytes())
    except Exception as e:
        r.bad(f"C03:encode-raises:{kind.upper()}", f"{plan}: {e!r}")
        return r
    if got != ref:
        r.bad(f"C03:encode-mismatch:{kind.upper()}", f"{plan}: impl {got.hex()} ref {ref.hex()}")
    try:
        p = ash.parse_frame(ref)
        if not (type(p) is cls and int(p.res) == res and int(p.ncp_ready) == nrdy and int(p.ack_num) == ack):
            r.bad(f"C03:parse-mismatch:{kind.upper()}", f"{plan}: {p!r}")
    except Exception as e:
        r.bad(f"C03:parse-raises:{kind.upper()}", f"{plan}: {e!r}")
    try:
        d = refash.decode_frame(got)
        if (d["kind"], d.get("res"), d.get("nrdy"), d.get("ack")) != (kind.upper(), res, nrdy, ack):
            r.bad(f"C03:ref-decode-mismatch:{kind.upper()}", f"{plan}: {d}")
    except refash.Bad as e:
        r.bad(f"C03:ref-decode-fails:{kind.upper()}", f"{plan}: {e!r}")
    _wire_check(r, plan, f, ref, cancel=(kind == "nak"))
    return r


def chk_wire_seq(frames, debug=False) -> Result:
    """Several frames written one after another through ONE protocol instance: what is written for a frame must not
    depend on what the instance wrote before.  frames = [["ack"|"nak", res, nrdy, ack] | ["data", frm, retx, ack, hex] | ["rst"]]"""
    import bellows.ash as ash

    import logging

    plan = {"t": "wseq", "frames": frames}
    r = Result(nontrivial=len(frames) > 1, classes=["wire-sequence"], key=[9, frames, bool(debug)])
    lg = logging.getLogger("bellows.ash")
    old_level, old_prop = lg.level, lg.propagate
    old_disable = logging.root.manager.disable
    if debug:
        # what goes on the wire must not depend on the log level (debug logging is what people turn on to look at frames)
        plan["debug"] = True
        logging.disable(logging.NOTSET)
        lg.setLevel(logging.DEBUG)
        lg.propagate = False
        if not any(isinstance(h_, logging.NullHandler) for h_ in lg.handlers):
            lg.addHandler(logging.NullHandler())
        r.cls("debug-logging-on")
    try:
        return _wire_seq(frames, plan, r)
    finally:
        lg.setLevel(old_level)
        lg.propagate = old_prop
        if debug:
            logging.disable(old_disable)


def _wire_seq(frames, plan, r):
    import bellows.ash as ash

    proto, tr, up = make_host()
    queued = []  # the very objects handed to write(): a transport may keep them and send them later
    _w = tr.write

    def write(data):
        queued.append(data)
        _w(data)

    tr.write = write
    expected_all = []
    for k, fr in enumerate(frames):
        kind = fr[0]
        if kind in ("ack", "nak"):
            f = (ash.AckFrame if kind == "ack" else ash.NakFrame)(res=fr[1], ncp_ready=fr[2], ack_num=fr[3])
            ref = (refash.enc_ack if kind == "ack" else refash.enc_nak)(fr[3], fr[2], fr[1])
        elif kind == "data":
            f = ash.DataFrame(frm_num=fr[1], re_tx=fr[2], ack_num=fr[3], ezsp_frame=bytes.fromhex(fr[4]))
            ref = refash.enc_data(fr[1], fr[2], fr[3], bytes.fromhex(fr[4]))
        else:
            f = ash.RstFrame()
            ref = refash.enc_rst()
        n0 = len(tr.writes)
        try:
            proto._write_frame(f)
        except Exception as e:
            r.bad("C03:write-raises", f"frame {k} of {plan}: {e!r}")
            return r
        got = b"".join(d for _, d in tr.writes[n0:])
        expected_all.append(refash.wire(ref))
        if got != refash.wire(ref):
            r.bad("C03:wire-mismatch:depends-on-earlier-writes", f"frame {k} {fr} of {plan}: impl {got.hex()} ref {refash.wire(ref).hex()}")
            return r
    later = b"".join(bytes(o) for o in queued)
    if later != b"".join(expected_all):
        r.bad("C03:written-object-changed-after-write", f"a transport that keeps the objects it was given and sends them later would put "
              f"{later.hex()[:80]} on the wire instead of {b''.join(expected_all).hex()[:80]}; plan {plan}")
    return r


def chk_rst() -> Result:
    import bellows.ash as ash

    plan = {"t": "rst"}
    r = Result(nontrivial=True, classes=["rst"], key=[2])
    ref = refash.enc_rst()
    got = bytes(ash.RstFrame().to_bytes())
    if got != ref:
        r.bad("C03:encode-mismatch:RST", f"impl {got.hex()} ref {ref.hex()}")
    try:
        if type(ash.parse_frame(ref)) is not ash.RstFrame:
            r.bad("C03:parse-mismatch:RST", "")
    except Exception as e:
        r.bad("C03:parse-raises:RST", repr(e))
    proto, tr, up = make_host()
    proto.send_reset()
    if tr.all_bytes() != bytes.fromhex("1ac038bc7e") or len(tr.writes) != 1:
        r.bad("C03:wire-mismatch:RST", tr.all_bytes().hex())
    return r


def chk_rstack(kind, code) -> Result:
    import bellows.ash as ash

    plan = {"t": kind, "code": code}
    r = Result(nontrivial=True, classes=[kind], key=[3, kind, code])
    cls = ash.RStackFrame if kind == "rstack" else ash.ErrorFrame
    ref = (refash.enc_rstack if kind == "rstack" else refash.enc_error)(code)
    try:
        p = ash.parse_frame(ref)
        if not (type(p) is cls and int(p.version) == 2 and int(p.reset_code) == code):
            r.bad(f"C03:parse-mismatch:{kind.upper()}", f"{plan}: {p!r}")
        else:
            got = bytes(p.to_bytes())
            if got != ref:
                r.bad(f"C03:encode-mismatch:{kind.upper()}", f"{plan}: impl {got.hex()} ref {ref.hex()}")
    except Exception as e:
        r.bad(f"C03:parse-raises:{kind.upper()}", f"{plan}: {e!r}")
    return r


def chk_classify(control, n) -> Result:
    """(d): control byte + n data bytes + valid CRC."""
    import bellows.ash as ash

    plan = {"t": "classify", "control": control, "n": n}
    r = Result(nontrivial=True, classes=["classify"], key=[4, control, n])
    field = bytes([2, 0x0B, 0x55, 0xAA][:n])
    raw = refash.with_crc(bytes([control]) + field)
    kind = refash.classify(control)
    try:
        ref = refash.decode_frame(raw)
    except refash.Bad:
        ref = None
    names = {"DATA": "DataFrame", "ACK": "AckFrame", "NAK": "NakFrame", "RST": "RstFrame",
             "RSTACK": "RStackFrame", "ERROR": "ErrorFrame"}
    try:
        p = ash.parse_frame(raw)
        got = type(p).__name__
    except ash.ParsingError:
        got = None
    except Exception as e:
        r.bad("C03:classify-raises-other", f"{plan}: {e!r}")
        return r
    if kind is None or ref is None:
        if got is not None:
            r.bad("C03:classify-accepts-invalid", f"{plan}: parsed as {got}")
    else:
        if got is None:
            # don't-care inputs (design 3.2) may be refused: ACK/NAK with data, DATA len<3
            if not ref["flags"]:
                r.bad("C03:classify-rejects-valid", f"{plan}: ref says {kind}")
        elif got != names[kind]:
            r.bad("C03:classify-wrong-type", f"{plan}: impl {got} ref {kind}")
    return r


def base_frames():
    """Short frames of every type, unstuffed, for the corruption sub-check."""
    out = []
    for pl in (b"", b"\x00", b"\x7e\x11", b"abc", b"\x00\x00\x00\x02", b"\xff\x18\x1a\x13\x7d\x7e"):
        for frm, retx, ack in ((0, 0, 0), (2, 0, 5), (7, 1, 7)):
            out.append(("data", refash.enc_data(frm, retx, ack, pl)))
    for ack in (0, 1, 6, 7):
        out.append(("ack", refash.enc_ack(ack)))
        out.append(("nak", refash.enc_nak(ack)))
    out.append(("rst", refash.enc_rst()))
    for code in (0x0B, 0x02, 0x51, 0x80, 0x00, 0xFF):
        out.append(("rstack", refash.enc_rstack(code)))
        out.append(("error", refash.enc_error(code)))
    return out


def chk_corrupt(raw_hex, bits) -> Result:
    """(f): flip the listed bit positions of the unstuffed frame; must be rejected."""
    import bellows.ash as ash

    raw = bytearray(bytes.fromhex(raw_hex))
    for b in bits:
        raw[b // 8] ^= 1 << (b % 8)
    raw = bytes(raw)
    plan = {"t": "corrupt", "raw": raw_hex, "bits": list(bits)}
    r = Result(nontrivial=True, classes=[f"corrupt{len(bits)}"], key=[5, raw_hex, list(bits)])
    try:
        p = ash.parse_frame(raw)
        r.bad(f"C03:corruption-accepted:parse:{len(bits)}bit", f"{plan}: parsed {p!r}")
    except ash.ParsingError:
        pass
    except Exception as e:
        r.bad("C03:corruption-raises-other", f"{plan}: {e!r}")
    # through the receive path: NAK, no delivery, no exception
    proto, tr, up = make_host()
    try:
        proto.data_received(refash.wire(raw))
    except Exception as e:
        r.bad("C03:corruption-raises:data_received", f"{plan}: {e!r}")
        return r
    if up.events:
        r.bad(f"C03:corruption-accepted:rx:{len(bits)}bit", f"{plan}: upward {up.simple()}")
    fr = refash.split_wire(tr.all_bytes())
    if len(fr) != 1 or fr[0].get("kind") != "NAK" or fr[0].get("ack") != 0:
        r.bad("C03:corruption-no-nak", f"{plan}: wrote {tr.all_bytes().hex()}")
    return r


def chk_lfsr() -> Result:
    import bellows.ash as ash

    r = Result(nontrivial=True, classes=["lfsr"], key=[6])
    if bytes(ash.PSEUDO_RANDOM_DATA_SEQUENCE[:256]) != refash.lfsr(256) or len(ash.PSEUDO_RANDOM_DATA_SEQUENCE) < 256:
        r.bad("C03:lfsr-mismatch", bytes(ash.PSEUDO_RANDOM_DATA_SEQUENCE[:16]).hex())
    if bytes(ash.generate_random_sequence(300)) != refash.lfsr(300):
        r.bad("C03:lfsr-generator-mismatch", "")
    if set(ash.RESERVED_BYTES) != set(refash.RESERVED):
        r.bad("C03:reserved-set", sorted(ash.RESERVED_BYTES))
    return r


def chk_send(payload: bytes, tx0, rx0) -> Result:
    """(b) through a real send_data on the virtual loop: the first DATA write equals the
    reference encoding with the protocol's current numbers; ack it so the send ends."""
    import asyncio

    from vlib import vloop

    plan = {"t": "send", "payload": _hex(payload), "tx": tx0, "rx": rx0}
    r = Result(nontrivial=True, classes=["send"], key=[7, _hex(payload), tx0, rx0])

    async def body(loop):
        proto, tr, up = make_host(loop)
        proto._tx_seq, proto._rx_seq = tx0, rx0
        task = asyncio.ensure_future(proto.send_data(payload))
        await asyncio.sleep(0.1)
        proto.data_received(refash.wire(refash.enc_ack((tx0 + 1) % 8)))
        await asyncio.wait_for(task, 30)
        return tr

    try:
        tr = vloop.run_case(body, horizon=100)
    except Exception as e:
        r.bad("C03:send-raises", f"{plan}: {e!r}")
        return r
    exp = refash.wire(refash.enc_data(tx0, 0, rx0, payload))
    if len(tr.writes) != 1 or tr.writes[0][1] != exp:
        r.bad("C03:wire-mismatch:send_data", f"{plan}: wrote {[w.hex() for _, w in tr.writes]} ref {exp.hex()}")
    return r


def chk_replies(frms):
    """The frames the host writes BY ITSELF - the ACK or NAK answering each received DATA frame - compared bit for bit
    with the independent encoder (next expected number, nRdy and the reserved bit clear), over runs that wrap the numbers."""
    r = Result(nontrivial=True, classes=["host-written-replies"])
    proto, tr, up = make_host()
    exp = 0
    for k, frm in enumerate(frms):
        n0 = len(tr.writes)
        payload = bytes([0xC3, k & 0xFF, 0x00, frm])
        try:
            proto.data_received(refash.wire(refash.enc_data(frm, 0, 0, payload)))
        except Exception as e:
            r.bad("C03:receive-raises:DATA", f"frame {k} (frmNum {frm}) of {frms}: {e!r}")
            return r
        if frm == exp:
            exp = (exp + 1) % 8
            want = refash.wire(refash.enc_ack(exp))
        else:
            want = refash.wire(refash.enc_nak(exp))
        got = b"".join(d for _, d in tr.writes[n0:])
        if got != want:
            r.bad("C03:reply-bytes-differ:" + ("ACK" if want[0] & 0x20 == 0 else "NAK"),
                  f"frame {k} (frmNum {frm}) of {frms}: host wrote {got.hex()}, independent encoder gives {want.hex()}")
            return r
    return r


DISPATCH = {
    "replies": lambda p: chk_replies(p["frms"]),
    "data": lambda p: chk_data(p["frm"], p["retx"], p["ack"], bytes.fromhex(p["payload"])),
    "ack": lambda p: chk_acknak("ack", p["res"], p["nrdy"], p["ack"]),
    "nak": lambda p: chk_acknak("nak", p["res"], p["nrdy"], p["ack"]),
    "rst": lambda p: chk_rst(),
    "rstack": lambda p: chk_rstack("rstack", p["code"]),
    "error": lambda p: chk_rstack("error", p["code"]),
    "classify": lambda p: chk_classify(p["control"], p["n"]),
    "corrupt": lambda p: chk_corrupt(p["raw"], p["bits"]),
    "lfsr": lambda p: chk_lfsr(),
    "send": lambda p: chk_send(bytes.fromhex(p["payload"]), p["tx"], p["rx"]),
    "wseq": lambda p: chk_wire_seq(p["frames"], p.get("debug", False)),
}


def replay(plan) -> Result:
    return DISPATCH[plan["t"]](plan)


def _plan_of(res_key, plan):
    return plan


def bodies(n):
    lf = refash.lfsr(256)
    out = [bytes(n), b"\xff" * n, bytes((i * 7 + 1) & 0xFF for i in range(n)),
           bytes(RES[i % len(RES)] for i in range(n)), lf[:n],
           bytes(RES[i % len(RES)] ^ lf[i] for i in range(n))]  # randomises INTO reserved bytes
    seen, uniq = set(), []
    for b in out:
        if b not in seen:
            seen.add(b)
            uniq.append(b)
    return uniq


def _worker_data(ctx, lengths):
    for n in lengths:
        for body in bodies(n):
            for frm, retx, ack in itertools.product(range(8), (0, 1), range(8)):
                res = chk_data(frm, retx, ack, body)
                ctx.check({"t": "data", "frm": frm, "retx": retx, "ack": ack, "payload": body.hex()}, res,
                          sample=(frm == 2 and ack == 5 and n in (3, 8)))


def _worker_corrupt(ctx, frames):
    for kind, raw in frames:
        nb = len(raw) * 8
        for b in range(nb):
            res = chk_corrupt(raw.hex(), (b,))
            ctx.check({"t": "corrupt", "raw": raw.hex(), "bits": [b]}, res, sample=(b == 9))
        for b1, b2 in itertools.combinations(range(nb), 2):
            res = chk_corrupt(raw.hex(), (b1, b2))
            ctx.check({"t": "corrupt", "raw": raw.hex(), "bits": [b1, b2]}, res, sample=False)


def run(ctx):
    quick = ctx.tier == "quick"
    ctx.check({"t": "lfsr"}, chk_lfsr())
    ctx.check({"t": "rst"}, chk_rst())
    for kind in ("ack", "nak"):
        for res, nrdy, ack in itertools.product((0, 1), (0, 1), range(8)):
            ctx.check({"t": kind, "res": res, "nrdy": nrdy, "ack": ack}, chk_acknak(kind, res, nrdy, ack))
    for kind in ("rstack", "error"):
        for code in range(256):
            ctx.check({"t": kind, "code": code}, chk_rstack(kind, code), sample=(code == 0x0B))
    for control in range(256):
        for n in (0, 2, 4):
            ctx.check({"t": "classify", "control": control, "n": n}, chk_classify(control, n), sample=(control == 0xC3))
    ctx.exhaustive["control fields, codes, classification"] = True
    # every ordered pair of distinct ACK/NAK frames written by one protocol instance
    an = [[k, res, nrdy, ack] for k in ("ack", "nak") for res in (0, 1) for nrdy in (0, 1) for ack in range(8)]
    for a in an:
        for b in an:
            if a != b:
                ctx.check({"t": "wseq", "frames": [a, b]}, chk_wire_seq([a, b]), sample=(a == an[3] and b == an[11]))
    ctx.exhaustive["ordered pairs of ACK/NAK frames through one instance"] = True

    # the host's own ACK / NAK for received DATA frames: three times round the numbers, and with a refused frame at each position
    ctx.check({"t": "replies", "frms": [i % 8 for i in range(26)]}, chk_replies([i % 8 for i in range(26)]))
    for pos in range(17):
        for off in (1, 2, 7):
            frms = [i % 8 for i in range(pos)] + [(pos + off) % 8] + [(pos + i) % 8 for i in range(10)]
            ctx.check({"t": "replies", "frms": frms}, chk_replies(frms), sample=(pos == 7 and off == 1))
    ctx.exhaustive["host-written ACK/NAK bytes for 26 in-sequence frames and a refused frame at each of 17 positions"] = True
    lengths = [0, 1, 2, 3, 7, 8, 127, 128, 129, 200, 255, 256] if quick else list(range(0, 257))
    jobs = [lengths[i::16] for i in range(16)]
    ctx.parallel(_worker_data, [j for j in jobs if j])

    frames = base_frames()
    if quick:
        frames = [f for f in frames if len(f[1]) <= 6]
    jobs = [frames[i::16] for i in range(16)]
    ctx.parallel(_worker_corrupt, [j for j in jobs if j])
    ctx.exhaustive["1- and 2-bit corruptions of the listed short frames"] = True

    # generated bodies and a real send_data
    n = 300 if quick else 6000
    strat = st.fixed_dictionaries({
        "t": st.just("data"), "frm": st.integers(0, 7), "retx": st.integers(0, 1), "ack": st.integers(0, 7),
        "payload": st.one_of(
            st.binary(max_size=256),
            st.lists(st.sampled_from(list(RES) + [b ^ 0x20 for b in RES]), max_size=256).map(bytes),
        ).map(bytes.hex),
    })
    ctx.search(strat, replay, max_examples=n)
    strat2 = st.fixed_dictionaries({
        "t": st.just("send"), "tx": st.integers(0, 7), "rx": st.integers(0, 7),
        "payload": st.one_of(st.binary(min_size=1, max_size=128),
                             st.lists(st.sampled_from(list(RES)), min_size=1, max_size=100).map(bytes)).map(bytes.hex),
    })
    ctx.search(strat2, replay, max_examples=100 if quick else 2000)
    fr = st.one_of(
        st.tuples(st.sampled_from(["ack", "nak"]), st.integers(0, 1), st.integers(0, 1), st.integers(0, 7)).map(list),
        st.tuples(st.just("data"), st.integers(0, 7), st.integers(0, 1), st.integers(0, 7), st.binary(min_size=3, max_size=20).map(bytes.hex)).map(list),
        st.just(["rst"]),
    )
    strat3 = st.fixed_dictionaries({"t": st.just("wseq"), "frames": st.lists(fr, min_size=2, max_size=30), "debug": st.booleans()})
    ctx.search(strat3, replay, max_examples=200 if quick else 5000)
