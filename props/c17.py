"""C17 — event-completed operations never miss their completing event or leak listeners.

formNetwork / leaveNetwork / startScan on EZSP and _ensure_network_running on the
application run against vlib.simncp; the plan is a schedule of {command response, status
events, scan result and completion callbacks, caller cancellation} relative to the instant
the request frame is seen, with some events before the request.  Several operations run one
after another on the same objects so that leaked listeners accumulate and are seen."""
from __future__ import annotations

import asyncio

from hypothesis import strategies as st

from vlib import simncp, vloop, zshim
from vlib.run import Result

LEVEL = "exploration"
RULE = (
    "a plan = protocol version from {4, 6, 8, 13, 14} and 1..8 operations (thorough 1..20) from {form, leave, ensure "
    "network running, energy scan, active scan}; each with a response status (OK, refusals, none) at a generated delay, "
    "0..4 status events (matching / non-matching) and for scans 0..6 result callbacks and a completion callback, at "
    "generated instants before the request, before the response and after it, and optionally a caller cancellation. "
    "Non-trivial = an event arrived before the response, or a cancellation happened, or at least two operations ran on "
    "the same object; distinct by plan."
)
ASSUMPTIONS = [
    "operation timeouts are 10 s (form, leave, network-up) counted by the implementation from the response; an event that "
    "arrives later than 10 s after the request but earlier than 10 s after the response may end either way",
    "scan schedules always contain a completion callback or a cancellation (the statement gives scans no timeout)",
    "ControllerApplication is constructed with the zigpy.util.Requests shim (vlib/zshim.py)",
]

from vlib import cfg

T_OP = cfg.net_ops_timeout()  # "the operation timeout" of form / leave
T_UP = cfg.net_up_timeout()  # ... and of bringing the network up


def t_op(kind):
    return T_UP if kind == "ensure" else T_OP
T_CMD = cfg.cmd_timeout()
MATCH = {"form": "NETWORK_UP", "leave": "NETWORK_DOWN", "ensure": "NETWORK_UP"}


class EvSim(simncp.SimNcp):
    def __init__(self, loop, version):
        super().__init__(loop, version)
        self.cur = None       # current op plan
        self.issue_time = None
        self.net_state = 0
        self.scan_active = False
        self.second_mode = None

    def _arm(self, name):
        op = self.cur
        if name == "startScan" and self.issue_time is not None and op.get("overlap") is not None:
            # a second scan request: refused while the first scan is still running (the NCP runs one at a time); accepted
            # once that one has completed, and then it produces one result of its own and a completion
            if self.scan_active:
                self.second_mode = "refused"
                return {"status": "ERR"}
            self.second_mode = "accepted"
            rk = "eresult" if op["op"] == "escan" else "nresult"
            self.loop.call_later(0.02, self._event, [0, rk, 26, -1 if rk == "eresult" else 1])
            self.loop.call_later(0.04, self._event, [0, "complete", 26, "OK"])
            return {"status": "OK"}
        self.issue_time = self.loop.time()
        if name == "startScan":
            self.scan_active = op["resp"] == "OK"
            self.second_mode = None
        for ev in op["events"]:
            self.loop.call_later(ev[0], self._event, ev)
        if op["resp"] == "none":
            return None
        seq = self.raw[-1][1][0]
        self.loop.call_later(op["t_r"], self.reply, seq, name, {"status": op["resp"]}, 0)
        return None

    def _event(self, ev):
        kind = ev[1]
        if kind == "status":
            self.callback("stackStatusHandler", {"status": ev[2]}, 0)
        elif kind == "eresult":
            self.callback("energyScanResultHandler", {"channel": ev[2], "maxRssiValue": ev[3]}, 0)
        elif kind == "nresult":
            import bellows.types as t

            nw = t.EmberZigbeeNetwork(channel=ev[2], panId=0x1234, extendedPanId=t.ExtendedPanId.convert("00:11:22:33:44:55:66:77"),
                                      allowingJoin=1, stackProfile=2, nwkUpdateId=0)
            self.callback("networkFoundHandler", {"networkFound": nw, "lastHopLqi": ev[3] & 0xFF, "lastHopRssi": -40}, 0)
        elif kind == "complete":
            self.scan_active = False
            self.callback("scanCompleteHandler", {"channel": ev[2], "status": ev[3]}, 0)

    def cmd_formNetwork(self, parameters):
        return self._arm("formNetwork")

    def cmd_leaveNetwork(self):
        return self._arm("leaveNetwork")

    def cmd_networkInit(self, **kw):
        return self._arm("networkInit")

    def cmd_networkInitExtended(self, **kw):
        return self._arm("networkInitExtended")

    def cmd_startScan(self, **kw):
        return self._arm("startScan")

    def cmd_networkState(self):
        return {"status": self.net_state}


def expected(op):
    """-> list of acceptable (outcome kind, detail) for this op schedule (times relative to issue)."""
    kind = op["op"]
    cancel = op.get("cancel")
    if kind == "ensure" and op.get("joined"):
        if cancel is not None and cancel < simncp.DELAY - 1e-9:
            return [("cancelled", None)]
        if cancel is not None and cancel <= simncp.DELAY + 1e-6:
            return [("ok", False), ("cancelled", None)]
        return [("ok", False)]
    resp, t_r = op["resp"], op["t_r"]
    if kind in ("escan", "ascan"):
        comp = [e for e in op["events"] if e[1] == "complete"]
        t_c = comp[0][0] if comp else None
        if resp == "none":
            end, out = T_CMD, [("TimeoutError", None)]
        elif resp != "OK":
            end, out = t_r, [("Exception", None)]
        elif t_c is None:
            end, out = None, [("never", None)]
        else:
            end = max(t_r, t_c)
            if comp[0][3] != "OK":
                out = [("Exception", None)]
            else:
                rk = ("eresult", "nresult")  # a scan returns every result callback it receives, of either kind
                items = [e for e in op["events"] if e[1] in rk and 0 < e[0] <= t_c]
                out = [("ok", [(e[1][0], e[2], e[3]) for e in sorted(items, key=lambda e: e[0])])]
                # the statement excludes results from before the request; it is silent about results that
                # arrive after the completion callback while the command's own response is still outstanding
                late = [e for e in op["events"] if e[1] in rk and 0 < e[0] <= end]
                if len(late) != len(items):
                    out.append(("ok", [(e[1][0], e[2], e[3]) for e in sorted(late, key=lambda e: e[0])]))
        if cancel is not None and (end is None or cancel < end):
            return [("cancelled", None)]
        return out
    match = MATCH[kind]
    ms = sorted(e[0] for e in op["events"] if e[1] == "status" and e[2] == match and e[0] > 0)
    first = ms[0] if ms else None
    if resp == "none":
        end, out = T_CMD, [("TimeoutError", None)]
    elif resp != "OK":
        end = t_r
        out = [({"form": "FormationFailure", "leave": "EzspError"}.get(kind) or ("NetworkNotFormed" if resp == "NOT_JOINED" else "ControllerError"), None)]
    elif first is not None and first < t_op(kind):
        end, out = max(first, t_r), [("ok", None)]
    elif first is not None and first < t_r + t_op(kind):
        end, out = max(first, t_r), [("ok", None), ("TimeoutError", None)]
    else:
        end, out = t_r + t_op(kind), [("TimeoutError", None)]
    if cancel is not None and cancel < end:
        return [("cancelled", None)]
    if cancel is not None and cancel <= end + 1e-6:
        return out + [("cancelled", None)]
    return out


def listeners(ezsp):
    return sum(len(v) for v in ezsp._stack_status_listeners.values())


async def scenario(loop, plan, r):
    import bellows.ezsp as e
    import bellows.types as t

    v = plan["v"]
    sim = EvSim(loop, v)
    ezsp = e.EZSP({"path": "/dev/null"})
    sim.attach(ezsp)
    ezsp._switch_protocol_version(v)
    ezsp.start_ezsp()
    app = zshim.make_app()
    app._ezsp = ezsp
    seen = []
    stamped = []  # (time, args) of everything the permanent recorder saw
    ezsp.add_callback(lambda *a: (seen.append(a), stamped.append((loop.time(), a))))
    base_cb = len(ezsp._callbacks)
    flags = set()
    for n, op in enumerate(plan["ops"]):
        where = f"op {n} {op['op']}"
        kind = op["op"]
        sim.cur = op
        sim.issue_time = None
        # EmberNetworkStatus: 0 NO_NETWORK, 1 JOINING, 2 JOINED, 3 JOINED_NO_PARENT, 4 LEAVING - only "joined" needs no bring-up
        sim.net_state = 2 if op.get("joined") else op.get("state", 0)
        for ev in op.get("pre", []):
            sim._event(ev)
            await asyncio.sleep(0.002)
        t0 = loop.time()
        if kind == "form":
            params = t.EmberNetworkParameters(extendedPanId=t.ExtendedPanId.convert("00:11:22:33:44:55:66:77"), panId=0x1234, radioTxPower=8,
                                              radioChannel=15, joinMethod=0, nwkManagerId=0, nwkUpdateId=0, channels=t.Channels.ALL_CHANNELS)
            coro = ezsp.formNetwork(params)
        elif kind == "leave":
            coro = ezsp.leaveNetwork()
        elif kind == "ensure":
            coro = app._ensure_network_running()
        else:
            coro = ezsp.startScan(scanType=t.EzspNetworkScanType.ENERGY_SCAN if kind == "escan" else t.EzspNetworkScanType.ACTIVE_SCAN,
                                  channelMask=t.Channels.ALL_CHANNELS, duration=2)
        # other components add and remove their own callbacks while the operation runs
        foreign = []
        for t_add, t_rm in op.get("foreign") or []:
            d = {"calls": [], "added": None, "removed": None, "id": None}
            foreign.append(d)

            def _add(d=d):
                d["id"] = ezsp.add_callback(lambda *a, d=d: d["calls"].append((loop.time(), a)))
                d["added"] = loop.time()

            def _rm(d=d):
                if d["id"] is not None and d["removed"] is None:
                    d["removed"] = loop.time()
                    try:
                        ezsp.remove_callback(d["id"])
                    except Exception as ex:
                        d["exc"] = repr(ex)

            d["rm"] = _rm
            loop.call_at(t0 + t_add, _add)
            if t_rm is not None:
                loop.call_at(t0 + t_rm, _rm)
        # somebody else waits for the same stack status at the same time (another bring-up, a form next to a watcher)
        extra = []
        if op.get("waiters") and kind in ("form", "leave", "ensure"):
            want_status = getattr(t.sl_Status, MATCH[kind])

            async def watcher():
                with ezsp.wait_for_stack_status(want_status) as fut:
                    return await asyncio.wait_for(fut, 40)

            extra = [asyncio.ensure_future(watcher()) for _ in range(op["waiters"])]
            await asyncio.sleep(0)
        task = asyncio.ensure_future(coro)
        second = None
        if op.get("overlap") is not None and kind in ("escan", "ascan"):
            async def later():
                await asyncio.sleep(op["overlap"])
                return await ezsp.startScan(scanType=t.EzspNetworkScanType.ENERGY_SCAN if kind == "escan" else t.EzspNetworkScanType.ACTIVE_SCAN,
                                            channelMask=t.Channels.ALL_CHANNELS, duration=2)
            second = asyncio.ensure_future(later())
        if op.get("cancel") is not None:
            # cancellation is relative to the issue instant (the request is seen ~immediately)
            delay = op["cancel"] + (0.001 if kind == "ensure" and not op.get("joined") else 0)
            loop.call_later(delay, task.cancel)
        last_ev = max([ev[0] for ev in op["events"]] + [op["t_r"], 0]) + max(T_OP, T_UP) + T_CMD + 5
        await asyncio.wait([task], timeout=last_ev + 30)
        if not task.done():
            exp = expected(op)
            if ("never", None) in exp:
                task.cancel()
                await asyncio.wait([task], timeout=1)
                flags.add("scan-without-completion")
            else:
                r.bad("C17:operation-hangs", f"{where}: still pending {loop.time() - t0:.3f}s after start; plan {plan}")
                task.cancel()
                return
        else:
            end_rel = loop.time() - (sim.issue_time if sim.issue_time is not None else t0)
            if task.cancelled():
                got = ("cancelled", None)
            elif task.exception() is not None:
                ex = task.exception()
                name = type(ex).__name__
                if name not in ("TimeoutError", "FormationFailure", "EzspError", "NetworkNotFormed", "ControllerError"):
                    name = "Exception" if type(ex) is Exception else name
                got = (name, None)
            else:
                res = task.result()
                if kind in ("escan", "ascan"):
                    res = [("e", int(x[0]), int(x[1])) if len(x) == 2 else ("n", int(x[0].channel), int(x[1])) for x in res]
                    got = ("ok", res)
                elif kind == "ensure":
                    got = ("ok", res)
                else:
                    got = ("ok", None)
            exp = expected(op)
            exp_n = [(k, (d if not (kind == "ensure" and k == "ok" and d is None) else True)) for k, d in exp]
            ok = False
            for k, d in exp_n:
                if k != got[0]:
                    continue
                if k == "ok" and kind in ("escan", "ascan"):
                    want = [(tg, a, (b & 0xFF) if tg == "n" else b) for tg, a, b in d]
                    ok = ok or want == got[1]
                elif k == "ok" and kind == "ensure":
                    ok = ok or bool(got[1]) == bool(d)
                else:
                    ok = True
            if not ok:
                sig = "C17:wrong-outcome:" + kind + ":" + got[0] + "-instead-of-" + exp[0][0]
                if kind in ("escan", "ascan") and got[0] == "ok" and exp[0][0] == "ok":
                    comp_t = [e_[0] for e_ in op["events"] if e_[1] == "complete"][0]
                    sig = "C17:scan-results-differ" + (":completion-before-response" if comp_t < op["t_r"] else "")
                r.bad(sig, f"{where}: got {got}, acceptable {exp}; plan {plan}")
                return
            if got[0] == "TimeoutError" and op["resp"] != "none" and kind not in ("escan", "ascan"):
                lo, hi = t_op(kind), op["t_r"] + t_op(kind)
                if not (lo - 1e-6 <= end_rel <= hi + 1e-6):
                    r.bad("C17:timeout-at-wrong-time", f"{where}: ended {end_rel:.4f}s after the request, window [{lo}, {hi}]")
                    return
            flags.add("outcome:" + got[0])
        # let every scheduled event land, then look for leaked listeners
        await asyncio.sleep(last_ev)
        if extra:
            flags.add("several-waiters-for-one-status")
            await asyncio.wait(extra, timeout=60)
            match_ev = [e_ for e_ in op["events"] if e_[1] == "status" and e_[2] == MATCH[kind] and 0 < e_[0] < 39.9]
            sent = sim.issue_time is not None  # events are only emitted once the NCP has seen the command
            for w_ in extra:
                got_it = w_.done() and not w_.cancelled() and w_.exception() is None
                if not w_.done():
                    w_.cancel()
                if sent and match_ev and not got_it:
                    how = repr(w_.exception()) if (w_.done() and not w_.cancelled()) else "pending"
                    r.bad("C17:concurrent-waiter-missed-the-event", f"{where}: {MATCH[kind]} arrived at {match_ev[0][0]}s while {len(extra)} more "
                          f"waiter(s) were registered; one of them ended with {how}; plan {plan}")
                    return
            await asyncio.sleep(0.01)
        if second is not None:
            flags.add("overlapping-scan-request")
            if not second.done():
                r.bad("C17:refused-overlapping-scan-hangs", f"{where}: the second scan request, refused by the NCP, is still pending; plan {plan}")
                second.cancel()
                return
            ok2 = not second.cancelled() and second.exception() is None
            if sim.second_mode == "refused" and ok2:
                r.bad("C17:refused-overlapping-scan-returned-results", f"{where}: the NCP refused the second scan request, yet it returned "
                      f"{second.result()!r}; plan {plan}")
                return
            comp1 = [e_[0] for e_ in op["events"] if e_[1] == "complete"]
            if sim.second_mode == "accepted" and comp1 and comp1[0] <= op["t_r"] + 1e-6:
                # the first scan's completion overtook its own response while the second request was queued behind it: the
                # callbacks carry no identifier, so whose completion that was cannot be told - not judged
                flags.add("ambiguous-overlap")
            elif sim.second_mode == "accepted":
                flags.add("second-scan-after-first-completed")
                want2 = [("e", 26, -1)] if kind == "escan" else [("n", 26, 1)]
                got2 = None
                if ok2:
                    got2 = [("e", int(x[0]), int(x[1])) if len(x) == 2 else ("n", int(x[0].channel), int(x[1])) for x in second.result()]
                if got2 != want2:
                    r.bad("C17:scan-results-differ:second-scan", f"{where}: the second scan was accepted after the first had completed and "
                          f"produced {want2}; it returned {got2 if ok2 else second.exception()!r}; plan {plan}")
                    return
        for j, d in enumerate(foreign):
            d["rm"]()
            if d.get("exc"):
                r.bad("C17:foreign-callback-removal-raises", f"{where}: {d['exc']}; plan {plan}")
                return
            if d["added"] is None:
                continue
            want = [(tm, a) for tm, a in stamped if d["added"] + 1e-7 < tm < d["removed"] - 1e-7]
            got = [(tm, a) for tm, a in d["calls"] if d["added"] + 1e-7 < tm < d["removed"] - 1e-7]
            if [a for _, a in got] != [a for _, a in want]:
                r.bad("C17:foreign-callback-misses-events", f"{where}: listener {j} registered {d['added'] - t0:.4f}..{d['removed'] - t0:.4f} saw "
                      f"{len(got)} callbacks, the permanent one {len(want)}; plan {plan}")
                return
            flags.add("foreign-listener")
        if len(ezsp._callbacks) != base_cb:
            r.bad("C17:callback-leaked", f"{where}: {len(ezsp._callbacks)} callbacks registered, baseline {base_cb}; plan {plan}")
            return
        if listeners(ezsp) != 0:
            r.bad("C17:status-listener-leaked", f"{where}: {listeners(ezsp)} status listeners remain; plan {plan}")
            return
        if any(ev[0] < op["t_r"] and ev[0] > 0 for ev in op["events"]):
            flags.add("event-before-response")
        if op.get("pre"):
            flags.add("event-before-request")
        if op.get("cancel") is not None:
            flags.add("cancel")
    # probe: an event injected now invokes exactly the baseline handlers
    seen.clear()
    sim.callback("stackStatusHandler", {"status": "NETWORK_UP"}, 0)
    await asyncio.sleep(0.01)
    if len(seen) != 1:
        r.bad("C17:probe-event-handler-count", f"recorder saw {len(seen)} invocations")
    r.nontrivial = bool(flags & {"event-before-response", "cancel"}) or len(plan["ops"]) >= 2
    for f in flags:
        r.cls(f)


def check(plan) -> Result:
    r = Result()
    try:
        vloop.run_case(lambda loop: scenario(loop, plan, r), horizon=1e8)
    except vloop.Hang:
        r.bad("C17:hang", f"{plan}")
    r.cls(f"v{plan['v']}")
    return r


def replay(plan) -> Result:
    return check(plan)


# --------------------------------------------------------------------- generators

TIMES = [0.002, 0.007, 0.055, 0.5, 3.2, 9.9, 10.004, 13.2, 25.0]


@st.composite
def op_plan(draw):
    kind = draw(st.sampled_from(["form", "leave", "ensure", "escan", "ascan"]))
    op = {"op": kind, "t_r": draw(st.sampled_from([0.005, 0.105, 3.005])), "events": [], "pre": []}
    refusals = {"form": ["ERR", "INVALID_CALL"], "leave": ["ERR", "INVALID_CALL", "NOT_JOINED"], "ensure": ["NOT_JOINED", "ERR", "INVALID_CALL"],
                "escan": ["ERR", "INVALID_CALL"], "ascan": ["ERR"]}[kind]
    op["resp"] = draw(st.sampled_from(["OK", "OK", "OK", "OK", "none"] + refusals))
    used = set()

    def t_new():
        for _ in range(20):
            x = draw(st.sampled_from(TIMES)) + draw(st.sampled_from([0, 0.0001, 0.0002, 0.0003]))
            x = round(x, 4)
            if x not in used and abs(x - op["t_r"]) > 1e-5:
                used.add(x)
                return x
        return None

    if draw(st.integers(0, 2)) == 0:
        fg = []
        for _ in range(draw(st.integers(1, 3))):
            a = draw(st.sampled_from([0.00011, 0.0033, 0.0305, 0.25, 1.7]))
            life = draw(st.sampled_from([None, 0.0011, 0.0212, 0.3, 4.0, 11.0]))
            fg.append([a, None if life is None else round(a + life, 5)])
        op["foreign"] = fg
    if kind in ("form", "leave", "ensure") and draw(st.integers(0, 3)) == 0:
        op["waiters"] = draw(st.integers(1, 2))
    if kind == "ensure":
        op["joined"] = draw(st.integers(0, 5)) == 0
        if not op["joined"]:
            op["state"] = draw(st.sampled_from([0, 0, 0, 1, 3, 4]))
    if kind in ("form", "leave", "ensure"):
        match = MATCH[kind]
        other = ["NETWORK_DOWN" if match == "NETWORK_UP" else "NETWORK_UP", "ERR", "NOT_JOINED"]
        for _ in range(draw(st.integers(0, 4))):
            tt = t_new()
            if tt is not None:
                op["events"].append([tt, "status", draw(st.sampled_from([match, match] + other))])
        for _ in range(draw(st.integers(0, 2))):
            op["pre"].append([0, "status", draw(st.sampled_from([match, match] + other))])
    else:
        rk = "eresult" if kind == "escan" else "nresult"
        for i in range(draw(st.integers(0, 6))):
            tt = t_new()
            if tt is not None:
                # now and then a result of the other kind (left over from a scan that was abandoned)
                k2 = rk if draw(st.integers(0, 5)) else ("nresult" if rk == "eresult" else "eresult")
                op["events"].append([tt, k2, draw(st.integers(11, 26)), draw(st.integers(-100, 10) if k2 == "eresult" else st.integers(0, 255))])
        for _ in range(draw(st.integers(0, 2))):
            op["pre"].append([0, rk, draw(st.integers(11, 26)), draw(st.integers(-100, 10) if kind == "escan" else st.integers(0, 255))])
        has_cancel = draw(st.integers(0, 5)) == 0
        if op["resp"] == "OK" and not has_cancel and draw(st.integers(0, 3)) == 0:
            op["overlap"] = draw(st.sampled_from([0.0031, 0.0561, 0.5011, 3.2011]))
        if not has_cancel or draw(st.booleans()):
            tt = t_new()
            op["events"].append([tt, "complete", draw(st.integers(11, 26)), draw(st.sampled_from(["OK", "OK", "OK", "ERR"]))])
            if draw(st.integers(0, 3)) == 0:
                t2 = t_new()
                if t2 is not None and t2 > tt:
                    op["events"].append([t2, "complete", 26, "OK"])  # duplicate completion after the first
        if has_cancel:
            op["cancel"] = draw(st.sampled_from([0.0005, 0.0031, 0.06, 1.0001, 5.0001]))
        op["events"].sort()
        return op
    if draw(st.integers(0, 5)) == 0:
        op["cancel"] = draw(st.sampled_from([0.0005, 0.0031, 0.06, 1.0001, 5.0001, 11.0001]))
    op["events"].sort()
    return op


@st.composite
def plans(draw, max_ops=8):
    return {"v": draw(st.sampled_from([4, 6, 8, 13, 14, 15])), "ops": draw(st.lists(op_plan(), min_size=1, max_size=max_ops))}


def _worker(ctx, job):
    n, max_ops = job
    ctx.search(plans(max_ops), check, max_examples=n)


def run(ctx):
    quick = ctx.tier == "quick"
    ctx.parallel(_worker, [(400, 8)] * 16 if quick else [(12000, 20)] * 16)
