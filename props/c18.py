"""C18 — status normalisation is total and reports success only for success."""
from __future__ import annotations

from hypothesis import strategies as st

from vlib.run import Result

LEVEL = "exploration"
RULE = (
    "exhaustive: EmberStatus(v) and EzspStatus(v) for every v in 0..255, built both by "
    "constructor and by deserialising one byte; every defined sl_Status; generated "
    "undefined 32-bit sl_Status values; all 256 values of the four other types that response schemas deliver in a field "
    "named `status` (uint8_t, EmberNetworkStatus, EmberKeyStatus, EmberDeviceUpdate); the steering codes fed as reply frames to the real handler of every version for network init / unicast / multicast / broadcast (what the caller of the helper receives). A case is (family, value, construction); "
    "non-trivial = value is not the family's success code (the conversion has to decide "
    "something); distinct by (family, value)."
)
ASSUMPTIONS = [
    "numeric status codes in the oracle table are transcribed by hand from Silicon Labs "
    "sl_status.h / ember error.h (no header available offline)",
    "a value of another type found in `status` fields (library status byte, network state, key status, device update) is "
    "not a success code of either family: it must convert without raising and must not yield OK, its zero included",
]

# Hand-written by numeric value: (family, input value) -> unified numeric value.
# Only the steering codes named by the property.
STEER = {
    ("ember", 0x90): 0x15,  # NETWORK_UP
    ("ember", 0x91): 0x16,  # NETWORK_DOWN
    ("ember", 0x93): 0x17,  # NOT_JOINED
    ("ember", 0xB1): 0x27,  # INDEX_OUT_OF_RANGE -> INVALID_INDEX
    ("ember", 0x03): 0x2D,  # NOT_FOUND (bellows numbering of the legacy enum)
    ("ember", 0xB6): 0x2D,  # TABLE_ENTRY_ERASED -> NOT_FOUND
}
# busy codes: only required to land in the retry set send_packet uses
BUSY_IN = {("ember", 0x72), ("ember", 0xA1), ("ember", 0x18)}
RETRY_SET = {0x0C03, 0x34, 0x19}  # MAX_MESSAGE_LIMIT_REACHED, TRANSMIT_BUSY, ALLOCATION_FAILED


def _build(family, v, how):
    import bellows.types as t

    T = {"ember": t.EmberStatus, "ezsp": t.EzspStatus, "sl": t.sl_Status}[family]
    if how == "ctor":
        return T(v)
    width = 4 if family == "sl" else 1
    val, rest = T.deserialize(v.to_bytes(width, "little"))
    assert rest == b""
    return val


def check(plan) -> Result:
    import bellows.types as t

    family, v, how = plan
    r = Result(nontrivial=(v != 0), classes=[family, how], key=[family, v])
    try:
        x = _build(family, v, how)
    except Exception as e:  # building an input is the harness's job
        raise AssertionError(f"cannot build {plan}: {e!r}")
    try:
        out = t.sl_Status.from_ember_status(x)
    except Exception as e:
        r.bad(f"C18:raises:{family}:{type(e).__name__}", f"{plan} -> {e!r}")
        return r
    if not isinstance(out, t.sl_Status):
        r.bad(f"C18:not-unified:{family}", f"{plan} -> {out!r} ({type(out).__name__})")
        return r
    if family == "sl":
        if int(out) != v or out is not x and out != x:
            r.bad("C18:unified-changed", f"{plan} -> {out!r}")
        return r
    if (int(out) == 0) != (v == 0):
        r.bad(f"C18:ok-iff-success:{family}:0x{v:02X}", f"{plan} -> {out!r}")
    key = (family, v)
    if key in STEER and int(out) != STEER[key]:
        r.bad(f"C18:steer:{family}:0x{v:02X}", f"{plan} -> {out!r}, expected 0x{STEER[key]:X}")
    if key in BUSY_IN and int(out) not in RETRY_SET:
        r.bad(f"C18:busy-not-retried:{family}:0x{v:02X}", f"{plan} -> {out!r}")
    if key in STEER or key in BUSY_IN:
        r.cls("steering")
    return r


FOREIGN = ["uint8_t", "EmberNetworkStatus", "EmberKeyStatus", "EmberDeviceUpdate"]


def check_foreign(plan) -> Result:
    """Values of the other types that response schemas deliver in a field called `status` (library status byte, network
    state, key-establishment status, device update): not a member of either legacy family nor unified, so never a
    family's success code - the conversion must not raise and must not report OK (zero included)."""
    import bellows.types as t

    _, tname, v = plan
    r = Result(nontrivial=True, classes=["foreign:" + tname], key=plan)
    T = getattr(t, tname)
    x, rest = T.deserialize(bytes([v]))
    try:
        out = t.sl_Status.from_ember_status(x)
    except Exception as e:
        r.bad(f"C18:raises:foreign:{tname}:{type(e).__name__}", f"{plan} -> {e!r}")
        return r
    if not isinstance(out, t.sl_Status):
        r.bad(f"C18:not-unified:foreign:{tname}", f"{plan} -> {out!r}")
    elif int(out) == 0:
        r.bad(f"C18:ok-for-non-family-value:{tname}:0x{v:02X}", f"{plan}: {x!r} is not a status of either family, reported {out!r}")
    return r


WIRE_OPS = ["init", "unicast", "multicast", "broadcast"]
# numeric reply status -> unified numeric status the helper must hand to its caller (None: must be in the retry set)
WIRE_LEGACY = {0x00: 0x00, 0x93: 0x17, 0x72: None, 0xA1: None, 0x18: None, 0x70: "not-ok", 0x66: "not-ok"}
WIRE_UNIFIED = {0x00: 0x00, 0x17: 0x17, 0x0C03: 0x0C03, 0x34: 0x34, 0x19: 0x19, 0x02: 0x02}


def check_wire(plan) -> Result:
    """The steering codes as they come off the wire: a reply frame carrying the numeric status is fed to the real protocol
    handler of every version and the handler-level helper (what the application branches on) must return the unified
    counterpart.  plan = ["wire", version, op, code]"""
    import asyncio

    import bellows.ezsp as e
    import bellows.types as t
    from vlib import refezsp, vloop

    _, v, op, code = plan
    r = Result(nontrivial=True, classes=["wire-path", f"v{v}"], key=plan)

    async def body(loop):
        cls = e.EZSP._BY_VERSION[v]
        ezsp = e.EZSP({"path": "/dev/null"})

        class Gw:
            async def send_data(self_, data):
                p = refezsp.parse(v, bytes(data))
                seq, fid = p[0], p[2]
                status = bytes([code]) if v < 14 else int(code).to_bytes(4, "little")
                tail = b"" if op == "init" else b"\x2a"
                loop.call_soon(ezsp.frame_received, refezsp.header(v, seq, fid, refezsp.RESPONSE) + status + tail)

        ezsp._gw = Gw()
        h = cls(ezsp.handle_callback, ezsp._gw)
        ezsp._protocol, ezsp._ezsp_version = h, v
        ezsp.start_ezsp()
        aps = t.EmberApsFrame(profileId=260, clusterId=6, sourceEndpoint=1, destinationEndpoint=1, options=0, groupId=0, sequence=5)
        if op == "init":
            return await asyncio.wait_for(ezsp.initialize_network(), 30)
        if op == "unicast":
            return (await asyncio.wait_for(ezsp.send_unicast(nwk=t.NWK(0x1234), aps_frame=aps, message_tag=7, data=b"\x01"), 30))[0]
        if op == "multicast":
            return (await asyncio.wait_for(ezsp.send_multicast(aps_frame=aps, radius=0, non_member_radius=3, message_tag=7, data=b"\x01"), 30))[0]
        return (await asyncio.wait_for(ezsp.send_broadcast(address=t.BroadcastAddress(0xFFFD), aps_frame=aps, radius=0, message_tag=7,
                                                           aps_sequence=5, data=b"\x01"), 30))[0]

    try:
        out = vloop.run_case(body, horizon=1e6)
    except Exception as ex:
        r.bad(f"C18:wire-path-raises:{op}:{type(ex).__name__}", f"{plan}: {ex!r}")
        return r
    want = (WIRE_LEGACY if v < 14 else WIRE_UNIFIED)[code]
    got = int(out)
    ok = (got in RETRY_SET) if want is None else (got != 0) if want == "not-ok" else (got == want)
    if not ok:
        r.bad(f"C18:wire-path:{op}:0x{code:02X}", f"v{v} {op}: reply status 0x{code:X} reached the caller as {out!r}, expected "
              f"{'one of the retry statuses' if want is None else want if isinstance(want, str) else hex(want)}")
    return r


USE_HELPERS = ["can_rewrite_custom_eui64", "can_burn_userdata_custom_eui64", "reset_custom_eui64", "get_board_info",
               "initialize_network", "read_counters", "get_free_buffers"]


def check_after_use(plan) -> Result:
    """The conversion is used all over the library.  After any of the library's own helpers has run (whatever the NCP
    answered) the conversion of EVERY status must be what it is in a fresh process: nothing the library does may edit the
    table for the rest of the process.  plan = ["after-use", version, helper, reply status code]"""
    import asyncio

    import bellows.ezsp as e
    import bellows.types as t
    from vlib import refezsp, vloop

    _, v, helper, code = plan
    r = Result(nontrivial=True, classes=["after-library-use", "used:" + helper], key=plan)

    def zeros(rx):
        out = b""
        if isinstance(rx, dict):
            fields = list(rx.items())
        else:
            try:
                fields = [(f.name, f.type) for f in rx.fields]
            except Exception:
                fields = []
        for name, T in fields:
            if name == "status" and not out:
                out += bytes([code & 0xFF]) if v < 14 or not issubclass(T, t.sl_Status) else int(code).to_bytes(4, "little")
                continue
            try:
                _, rest = T.deserialize(b"\x00" * 80)
                out += b"\x00" * (80 - len(rest))
            except Exception:
                out += b"\x00"
        return out

    async def body(loop):
        cls = e.EZSP._BY_VERSION[v]
        ezsp = e.EZSP({"path": "/dev/null"})
        by_id = {cid: (n, rx) for n, (cid, tx, rx) in cls.COMMANDS.items()}

        class Gw:
            async def send_data(self_, data):
                p = refezsp.parse(v, bytes(data))
                seq, fid = p[0], p[2]
                loop.call_soon(ezsp.frame_received, refezsp.header(v, seq, fid, refezsp.RESPONSE) + zeros(by_id[fid][1]))

        ezsp._gw = Gw()
        ezsp._protocol, ezsp._ezsp_version = cls(ezsp.handle_callback, ezsp._gw), v
        ezsp.start_ezsp()
        fn = getattr(ezsp, helper, None)
        if fn is None:
            return "absent"
        try:
            await asyncio.wait_for(fn(), 60)
            return "returned"
        except asyncio.CancelledError:
            raise
        except BaseException as ex:
            return type(ex).__name__

    try:
        how = vloop.run_case(body, horizon=1e6)
    except Exception as ex:
        how = "harness:" + type(ex).__name__
    r.cls("helper-" + str(how).split(":")[0])
    for family in ("ember", "ezsp"):
        for x in range(256):
            sub = check([family, x, "ctor"])
            for sig, d in sub.violations:
                r.bad(sig + ":after-library-use", f"after {helper} on v{v} (reply status 0x{code:X}): {d}")
            try:
                out = int(t.sl_Status.from_ember_status(_build(family, x, "ctor")))
            except Exception:
                continue
            first = _FIRST.setdefault((family, x), out)
            if first != out:
                r.bad(f"C18:answer-depends-on-history:{family}:0x{x:02X}", f"after {helper} on v{v}: now 0x{out:X}, earlier 0x{first:X}")
        if r.violations:
            break
    return r


def replay(plan) -> Result:
    if plan and plan[0] == "after-use":
        return check_after_use(plan)
    if plan and plan[0] == "wire":
        return check_wire(plan)
    if plan and plan[0] == "history":
        return check_history(plan)
    if plan and plan[0] == "foreign":
        return check_foreign(plan)
    return check(plan)


def check_history(plan) -> Result:
    """The conversion is a pure function: its answer for an input must not depend on what was
    converted before (in this process).  plan = ["history", [[family, value], ...]]."""
    import bellows.types as t

    seq = plan[1]
    r = Result(nontrivial=len(seq) > 1, classes=["history"], key=["h", seq])
    for family, v in seq:
        sub = check([family, v, "ctor"])
        for sig, d in sub.violations:
            r.bad(sig + ":after-history", f"history {seq}: {d}")
        try:
            out = int(t.sl_Status.from_ember_status(_build(family, v, "ctor")))
        except Exception:
            continue  # already reported by check() above
        first = _FIRST.setdefault((family, v), out)
        if first != out:
            r.bad(f"C18:answer-depends-on-history:{family}:0x{v:02X}", f"history {seq}: now 0x{out:X}, earlier 0x{first:X}")
    return r


_FIRST = {}


def run(ctx):
    import bellows.types as t

    # both family orders, twice: a conversion must not be influenced by earlier conversions
    for order in (("ember", "ezsp"), ("ezsp", "ember"), ("ember", "ezsp")):
        for family in order:
            for v in range(256):
                for how in ("ctor", "bytes"):
                    plan = [family, v, how]
                    res = check(plan)
                    out = None
                    try:
                        out = int(t.sl_Status.from_ember_status(_build(family, v, how)))
                    except Exception:
                        pass
                    first = _FIRST.setdefault((family, v), out)
                    if first != out:
                        res.bad(f"C18:answer-depends-on-history:{family}:0x{v:02X}", f"{plan}: now {out}, first time {first}")
                    ctx.check(plan, res)
    ctx.exhaustive["8-bit families"] = True
    import bellows.ezsp as e_

    for v in sorted(e_.EZSP._BY_VERSION):
        for op in WIRE_OPS:
            for code in (WIRE_LEGACY if v < 14 else WIRE_UNIFIED):
                plan = ["wire", v, op, code]
                ctx.check(plan, check_wire(plan), sample=(v == 4 and op == "init" and code == 0x93))
    ctx.exhaustive["steering codes x {network init, unicast, multicast, broadcast} x every version, off the wire"] = True
    for v in sorted(e_.EZSP._BY_VERSION):
        for helper in USE_HELPERS:
            for code in (0x00, 0x93, 0x70):
                plan = ["after-use", v, helper, code]
                ctx.check(plan, check_after_use(plan), sample=(v == 13 and helper == USE_HELPERS[0] and code == 0x93))
    ctx.exhaustive["whole conversion table re-checked after each library helper x reply status x version"] = True
    for tname in FOREIGN:
        for v in range(256):
            plan = ["foreign", tname, v]
            ctx.check(plan, check_foreign(plan), sample=(v == 0))
    ctx.exhaustive["all 256 values of the 4 other types found in `status` fields of response schemas"] = True
    hist = st.tuples(st.just("history"), st.lists(st.tuples(st.sampled_from(["ember", "ezsp"]), st.integers(0, 255)).map(list), min_size=2, max_size=8)).map(list)
    ctx.search(hist, check_history, max_examples=300 if ctx.tier == "quick" else 20000)
    for m in t.sl_Status:
        for how in ("ctor", "bytes"):
            plan = ["sl", int(m), how]
            ctx.check(plan, check(plan))
    ctx.exhaustive["defined unified"] = True
    defined = {int(m) for m in t.sl_Status}
    n = 1_500 if ctx.tier == "quick" else 60_000
    strat = st.tuples(
        st.just("sl"),
        st.one_of(
            st.integers(0, 2**32 - 1),
            st.integers(0, 0x1000),
            st.sampled_from([2**32 - 1, 2**31, 2**16, 0xFFFF, 0x0C1F, 0x0C00]),
        ).filter(lambda v: v not in defined),
        st.sampled_from(["ctor", "bytes"]),
    ).map(list)
    ctx.search(strat, check, max_examples=n)
