"""C10 — NCP failure or connection loss at any moment is reported and never hangs.

Full stack in virtual time (vlib.stack).  A scripted workload is first run fault-free to
count its wire events; then it is re-run once per (wire event, before/after, failure kind)
with the failure injected at that point (crash-point enumeration), and with a deliberate
close() at every point as the control experiment."""
from __future__ import annotations

import asyncio

from hypothesis import strategies as st

from vlib import refash, vloop
from vlib.stack import Stack, make_config
from vlib.run import HarnessError, Result

LEVEL = "fault_enumeration"
RULE = (
    "workloads {idle, one command in flight, four queued commands of mixed priority, reset in progress, reset in progress with other tasks issuing commands meanwhile, start-up} x NCP "
    "version {4, 8, 13} (quick: 8) x every wire event of the fault-free run x {before, after} x failure kind {ERROR(0x51), "
    "ERROR(0x80), ERROR(0x81, a code without a name), unsolicited RSTACK(0x02 power-on), RSTACK(0x03 watchdog), RSTACK(0x04, unnamed), NCP silent, NCP answering DATA alternately with "
    "NAK and silence, connection_lost(exc), EOF, "
    "deliberate close()} x {no line noise, a stray XOFF, XOFF+XON from the NCP before the workload}, and for the non-start-up workloads with an earlier command left unanswered (caller timed out / gave up) and with callers that abandon their requests after 2 s / 5 s, and with the application attaching only after a first announcement of the failure (the NCP then announces it again); plus Hypothesis cases with a generated injection instant and optional line faults. "
    "Non-trivial = the injection happened while at least one call was pending; distinct by plan."
)
ASSUMPTIONS = [
    "an application is attached by registering one extra callback on EZSP (the statement's precondition)",
    "a silent NCP can only be noticed through traffic: the reset request is demanded only if the host wrote a DATA frame "
    "after the NCP went silent",
    "stray XON/XOFF bytes are legal on an ASH line and are dropped by the receiver (UG101); the host never honours them",
    "bound for calls in progress: injection time + 10 s command timeout + 5 x 3.2 s link timeouts = 26 s of virtual time",
]

# errorXX / rstackXX: hex code; 0x81 and 0x04 are codes without a name in bellows' enum
KINDS = ["error51", "error80", "error81", "rstack02", "rstack03", "rstack04", "silent", "nakflap", "lost", "eof", "close"]
FRAME_KINDS = [k for k in KINDS if k.startswith(("error", "rstack"))]
from vlib import cfg

BOUND = cfg.cmd_timeout() + cfg.ash_attempts() * 3.2 + 0.1  # command timeout + link timeouts (attempts x the ASH maximum)
WORKLOADS = ["idle", "one", "queue", "reset", "reset+cmds", "startup"]


class Boom(Exception):
    pass


async def scenario(loop, plan, out):
    import bellows.ezsp as e
    import bellows.types as t

    V = plan["v"]
    stack = Stack(loop, V).install()
    # "merge": frames the NCP writes at the same instant reach the host in ONE read (an RSTACK and the ERROR right behind it)
    stack.line.merge_reads = bool(plan.get("merge"))

    def arm_faults():
        # line faults apply to the workload only, never to the preparatory bring-up
        stack.line.h2n.fates = [["d"]] * stack.line.h2n.n + list(plan.get("fh") or [])
        stack.line.n2h.fates = [["d"]] * stack.line.n2h.n + list(plan.get("fn") or [])

    out["stack"] = stack
    try:
        ezsp = e.EZSP(make_config())
        out["ezsp"] = ezsp
        resets = []
        out["resets"] = resets
        app_cb = lambda name, args=None: resets.append((loop.time(), args)) if name == "_reset_controller_application" else None
        if not plan.get("late_app"):
            ezsp.add_callback(app_cb)
        wl = plan["workload"]
        calls = []  # (name, task, start)
        out["calls"] = calls
        inj = {"t": None, "host_writes": None, "pending": None}
        out["inj"] = inj
        base = {"g": None}

        def inject2():
            inject(second=True)

        def inject(second=False):
            if inj["t"] is not None:
                return
            if inj.get("first_done") and not second:
                return  # another trigger of the same injection point
            k = plan["kind"]
            if plan.get("late_app") and not inj.get("first_done"):
                # the same failure once before any application is attached (nobody to tell), then the application
                # attaches, then the NCP announces it again: that second announcement must be reported
                inj["first_done"] = True
                if k.startswith("error"):
                    stack.ash._fail(int(k[5:], 16))
                else:
                    stack.spontaneous_rstack(int(k[6:], 16))
                loop.call_later(0.05, ezsp.add_callback, app_cb)
                loop.call_later(0.1, inject2)
                return
            inj["t"] = loop.time()
            inj["host_writes"] = len(stack.host_writes)
            inj["pending"] = [c[0] for c in calls if not c[1].done()]
            if k.startswith("error"):
                stack.ash._fail(int(k[5:], 16))
            elif k.startswith("rstack"):
                stack.spontaneous_rstack(int(k[6:], 16))
            elif k == "silent":
                stack.line.dead = True
            elif k == "nakflap":
                # the NCP no longer acknowledges anything: it answers DATA frames alternately with a NAK and with silence
                from vlib import refash as _ra

                flap = {"n": 0}
                orig_feed = stack.ash.feed

                def feed(data):
                    for f in _ra.split_wire(data):
                        if f.get("kind") == "DATA":
                            flap["n"] += 1
                            if flap["n"] % 2 == 1:
                                stack.ash._out(_ra.enc_nak(stack.ash.rx_seq))
                    return None

                stack.ash.feed = feed
                stack.line.h2n.sink = feed
            elif k == "lost":
                stack.transport.closed = True
                stack.proto.connection_lost(Boom("serial port vanished"))
            elif k == "eof":
                stack.proto.eof_received()
            elif k == "close":
                ezsp.close()

        def hook(g, dirname, when):
            if base["g"] is None or plan.get("at") is None:
                return
            if g - base["g"] == plan["at"]:
                if plan["pos"] == "before" or when is None:
                    loop.call_soon(inject)
                else:
                    loop.call_at(when + 2e-6, inject)

        stack.line.hook = hook

        def start(name, coro):
            if plan.get("giveup") is not None:
                # the caller abandons its request after a while (a request timeout shorter than the link's retry budget)
                coro = asyncio.wait_for(coro, plan["giveup"])
            calls.append((name, asyncio.ensure_future(coro), loop.time()))

        async def noise():
            # stray software flow-control bytes from the NCP (legal on an ASH line; the receiver must drop them)
            for b in plan.get("noise") or []:
                stack.line.n2h.write(bytes([b]))
                await asyncio.sleep(0.01)

        await ezsp.connect(use_thread=False)
        if wl == "startup":
            await noise()
            arm_faults()
            base["g"] = stack.line.n_global
            start("startup_reset", ezsp.startup_reset())
        else:
            await ezsp.startup_reset()
            await asyncio.sleep(0.5)
            if plan.get("stale"):
                # earlier history: one command was acknowledged by the link but never answered (its caller timed out, or
                # gave up) - whatever that leaves behind is still there when the failure strikes
                stack.ncp.script["getNodeId"] = lambda sim, args: None
                old = asyncio.ensure_future(ezsp.getNodeId())
                if plan["stale"] == "cancel":
                    await asyncio.sleep(0.05)
                    old.cancel()
                await asyncio.wait([old], timeout=15)
                del stack.ncp.script["getNodeId"]
                await asyncio.sleep(0.5)
            await noise()
            arm_faults()
            base["g"] = stack.line.n_global
            if wl == "idle":
                if plan.get("at") is not None:
                    loop.call_later(0.25, inject)
            elif wl == "one":
                start("getNodeId", ezsp.getNodeId())
            elif wl == "queue":
                start("getEui64", ezsp.getEui64())
                start("getNodeId", ezsp.getNodeId())
                start("setConfigurationValue", ezsp.setConfigurationValue(configId=t.EzspConfigId.CONFIG_STACK_PROFILE, value=2))
                start("getValue", ezsp.getValue(valueId=t.EzspValueId.VALUE_FREE_BUFFERS))
            elif wl == "reset":
                async def reset_then_version():
                    await ezsp.reset()
                    await ezsp.version()
                start("reset+version", reset_then_version())
            elif wl == "reset+cmds":
                # other tasks (a watchdog, a sender) issue commands while the reset is under way: RST written, no RSTACK yet
                async def reset_then_version():
                    await ezsp.reset()
                    await ezsp.version()

                async def during(f, delay):
                    await asyncio.sleep(delay)
                    return await f()
                start("reset+version", reset_then_version())
                start("during-reset:nop", during(ezsp.nop, 0.001))
                start("during-reset:getNodeId", during(ezsp.getNodeId, 0.0015))
        if plan.get("at_time") is not None:
            loop.call_later(plan["at_time"], inject)
        # run until everything ended or the bound (plus slack) passed
        deadline = 3.0
        await asyncio.sleep(deadline)
        tasks = [c[1] for c in calls]
        t_wait = (inj["t"] if inj["t"] is not None else loop.time()) + BOUND + 30
        while any(not x.done() for x in tasks) and loop.time() < t_wait:
            await asyncio.sleep(0.5)
        if inj["t"] is not None and loop.time() < inj["t"] + BOUND + 1:
            # callers may have given up early; the link keeps trying in the background and reports within the bound
            await asyncio.sleep(inj["t"] + BOUND + 1 - loop.time())
        out["n_units"] = stack.line.n_global - base["g"]
        out["ends"] = [(c[0], c[1].done(), None) for c in calls]
        out["end_time"] = loop.time()
        ends = []
        for name, task, t0 in calls:
            if not task.done():
                ends.append((name, "pending", None))
                task.cancel()
            elif task.cancelled():
                ends.append((name, "cancelled", None))
            elif task.exception() is not None:
                ends.append((name, type(task.exception()).__name__, getattr(task, "_end", None)))
            else:
                ends.append((name, "ok", None))
        out["ends"] = ends
        out["running_after"] = ezsp.is_ezsp_running
        # probe: new commands
        if inj["t"] is not None and (resets or plan["kind"] == "close"):
            w0 = len(stack.host_writes)
            t0 = loop.time()
            try:
                await asyncio.wait_for(ezsp.getNodeId(), 60)
                out["probe"] = ("returned", loop.time() - t0, len(stack.host_writes) - w0)
            except BaseException as ex:
                out["probe"] = (type(ex).__name__, loop.time() - t0, len(stack.host_writes) - w0)
    finally:
        stack.uninstall()


def timed(loop, task, store):
    task.add_done_callback(lambda f: store.append(loop.time()))


def check(plan) -> Result:
    r = Result()
    out = {}
    try:
        vloop.run_case(lambda loop: scenario(loop, plan, out), horizon=1e6)
    except vloop.Hang:
        r.bad("C10:hang", f"{plan}")
        return r
    stack = out["stack"]
    inj = out["inj"]
    kind = plan["kind"]
    if stack.rx_raised:
        r.bad("C10:receive-callback-raises", f"{stack.rx_raised[0]}; plan {plan}")
    r.cls("workload:" + plan["workload"], "kind:" + kind)
    if plan.get("noise"):
        r.cls("flow-control-noise")
    if plan.get("stale"):
        r.cls("stale-unanswered-command:" + plan["stale"])
    if plan.get("late_app"):
        r.cls("application-attached-after-first-announcement")
    if plan.get("giveup") is not None:
        r.cls("callers-give-up")
    if plan.get("merge"):
        r.cls("announcement-in-the-same-read-as-the-preceding-frame")
    if plan.get("at") is None and plan.get("at_time") is None:
        # fault-free reference run
        if out["resets"]:
            r.bad("C10:spurious-reset-request", f"{plan}")
        if any(e[1] != "ok" and not (e[0].startswith("during-reset:") and e[1] == "EzspError") for e in out["ends"]):
            r.bad("C10:harness:fault-free-run-fails", f"{out['ends']}; plan {plan}")
        r.note = out["n_units"]
        return r
    if inj["t"] is None:
        r.cls("injection-point-not-reached")
        return r
    r.nontrivial = bool(inj["pending"])
    if inj["pending"]:
        r.cls("calls-pending-at-injection")
    resets = out["resets"]
    # calls in progress terminate within the bound
    for name, how, _ in out["ends"]:
        if how == "pending":
            r.bad(f"C10:call-never-ends:{kind}", f"{name} still pending {out['end_time'] - inj['t']:.1f}s after injection; plan {plan}")
    if kind == "close":
        if resets:
            r.bad("C10:deliberate-close-requests-reset", f"{resets}; plan {plan}")
    else:
        host_data_after = [1 for tm, f, raw in stack.host_frames(inj["host_writes"]) if f.get("kind") == "DATA"]
        must = kind not in ("silent", "nakflap") or bool(host_data_after)
        if any(fk in ("ERROR", "RSTACK") for _, _, fk in stack.line.n2h.hits):
            must = False  # the line lost or damaged the very frame that announces the failure
            r.cls("announcement-lost-on-line")
        if any(fk == "RST" for _, _, fk in stack.line.h2n.hits):
            must = False  # a lost or duplicated RST leaves the two ends with different frame numbers: not this property's case
            r.cls("reset-request-damaged-on-line")
        if must and not resets:
            r.bad(f"C10:failure-not-reported:{kind}", f"no _reset_controller_application after {kind} at t={inj['t']:.4f}; ends {out['ends']}; plan {plan}")
        if resets:
            r.cls("reset-requested")
    if (resets or kind == "close") and out.get("running_after"):
        r.bad(f"C10:ezsp-not-stopped:{kind}", f"is_ezsp_running is still true after the failure was reported; plan {plan}")
    if "probe" in out:
        how, dt, nw = out["probe"]
        if how == "returned" or dt > 1e-6 or nw:
            r.bad(f"C10:commands-not-stopped-after-failure:{kind}", f"probe command: {out['probe']}; plan {plan}")
    # nothing written after the stack was stopped
    if resets or kind == "close":
        t_stop = resets[0][0] if resets else inj["t"]
        late = [(tm, d.hex()) for tm, d in stack.host_writes if tm > t_stop + 1e-9]
        if late:
            r.bad(f"C10:writes-after-stop:{kind}", f"{late[:3]}; plan {plan}")
    return r


def replay(plan) -> Result:
    return check(plan)


def _worker_enum(ctx, job):
    v, wl, noise, extra = job
    base = {"v": v, "workload": wl, "kind": "none"}
    base.update(extra)
    if noise:
        base["noise"] = noise
    r0 = check(base)
    ctx.check(base, r0)
    if r0.violations:
        return
    n = r0.note
    if wl == "idle":
        points = [(0, "before")]
    else:
        points = [(i, pos) for i in range(n) for pos in ("before", "after")]
    for at, pos in points:
        for kind in KINDS:
            if extra.get("late_app") and kind not in FRAME_KINDS:
                continue
            plan = {"v": v, "workload": wl, "kind": kind, "at": at, "pos": pos}
            plan.update(extra)
            if noise:
                plan["noise"] = noise
            ctx.check(plan, check(plan), sample=(kind == "silent" and at == 2))
    ctx.extra[f"wire_events_{wl}_v{v}"] = n


fate = st.one_of(st.just(["d"]), st.just(["d"]), st.just(["d"]), st.just(["x"]), st.just(["2"]), st.integers(0, 99).map(lambda b: ["c", b]))


@st.composite
def plans(draw):
    plan = {"v": draw(st.sampled_from([4, 5, 7, 8, 11, 13, 14])), "workload": draw(st.sampled_from(WORKLOADS)),
            "kind": draw(st.sampled_from(KINDS)), "at_time": draw(st.sampled_from([0.0001, 0.0015, 0.0021, 0.0042, 0.011, 0.3, 1.7, 2.9]))}
    if plan["kind"] in FRAME_KINDS and draw(st.integers(0, 3)) == 0:
        plan["late_app"] = True
    if draw(st.integers(0, 3)) == 0:
        plan["stale"] = draw(st.sampled_from(["timeout", "cancel"]))
    if draw(st.integers(0, 3)) == 0:
        plan["giveup"] = draw(st.sampled_from([0.5, 2.0, 5.0, 11.0]))
    if draw(st.integers(0, 3)) == 0:
        plan["merge"] = True
    if draw(st.integers(0, 2)) == 0:
        plan["noise"] = draw(st.lists(st.sampled_from([0x13, 0x11]), min_size=1, max_size=3))
    if draw(st.integers(0, 2)) == 0:
        plan["fh"] = draw(st.lists(fate, max_size=12))
        plan["fn"] = draw(st.lists(fate, max_size=12))
    return plan


def _worker(ctx, n):
    ctx.search(plans(), check, max_examples=n)


def run(ctx):
    quick = ctx.tier == "quick"
    vs = [4, 8] if quick else list(range(4, 15))
    jobs = [(v, wl, noise, {}) for v in vs for wl in WORKLOADS for noise in (None, [0x13], [0x13, 0x11])]
    jobs += [(v, wl, None, extra) for v in vs for wl in ("idle", "one", "queue", "reset", "reset+cmds")
             for extra in ({"stale": "timeout"}, {"stale": "cancel"}, {"giveup": 2.0}, {"giveup": 5.0, "stale": "cancel"}, {"late_app": True}, {"merge": True})]
    ctx.parallel(_worker_enum, jobs)
    ctx.exhaustive["every wire event x before/after x 8 failure kinds for the listed workloads and versions"] = True
    ctx.parallel(_worker, [300] * 16 if quick else [5000] * 16)
