"""C14 — network settings survive a write / read round trip through the NCP.

ControllerApplication.write_network_info() then load_network_info(load_devices=True) run
against vlib.netsim.NetSim (a stateful simulated NCP with reset, leave, form, security,
link-key, child and token storage) for every protocol version."""
from __future__ import annotations

import asyncio

from hypothesis import strategies as st

from vlib import netsim, vloop, zshim
from vlib.run import Result

LEVEL = "exploration"
RULE = (
    "a case = protocol version 4..14 (and NCPs reporting 15 / 16, served with the v14 tables) x generated network/node information (PAN, extended PAN, channel 11..26, channel mask, "
    "(containing the channel or not), update id, network key + sequence + frame counter, trust-centre link key well-known or not, hashed link key supplied or "
    "absent, 0..N link keys with distinct partners, 0..M children with or without known NWK address, trust-centre address "
    "known or unknown, node IEEE equal to / different from / unknown vs the NCP's) x NCP capabilities (NV3 EUI64 token, "
    "manufacturing token burnable / burnt / absent, token commands implemented or not; NCP factory-fresh or still holding an "
    "earlier network: other keys, non-zero frame counters, link keys, children, stack up or down); optionally one link key is "
    "erased in the NCP between write and read (a hole in the table). Non-trivial = at least one link "
    "key or one child or an EUI64 rewrite; distinct by plan."
)
ASSUMPTIONS = [
    "vlib/netsim.py semantics: initial security state becomes current on formNetwork; written frame counters are what the "
    "key records report; a forming coordinator is its own trust centre; TCLK partner is reported as FF..FF; clearKeyTable and "
    "tokenFactoryReset clear what their names say; leaveNetwork also erases the child table but keeps frame counters and link keys; a reset keeps the stored network but the stack is down until networkInit",
    "ControllerApplication is constructed with the zigpy.util.Requests shim",
    "frame counter is compared for versions >= 5 and children for versions >= 9 (the versions whose handlers can store them)",
    "os.urandom in write_network_info (random hashed TCLK) is compared against what the simulator received",
]

WELL_KNOWN = b"ZigBeeAlliance09"


def hx(b):
    return bytes(b).hex()


async def scenario(loop, plan, out):
    import bellows.ezsp as e
    import zigpy.state as zs
    import zigpy.types as zt
    import zigpy.zdo.types as zdo_t

    v = plan["v"]
    cap = plan["cap"]
    mfg = {"burnable": netsim.FF8, "burnt": bytes.fromhex("a1a2a3a4a5a6a7a8"), "absent": b""}[cap["mfg"]]
    sim = netsim.NetSim(loop, v, nv3_eui64=cap["nv3"], mfg_eui64=mfg, have_token_cmds=cap["token_cmds"],
                        key_table_size=cap.get("key_table", 12), fw_sizes=(2, 2) if cap.get("fw_small") else None)
    if cap.get("nv3_custom") and sim.nv3 is not None:
        # the NCP already carries a custom EUI64 from an earlier restore
        sim.nv3[0x0000E12A] = bytes.fromhex(cap["nv3_custom"])
    prior = cap.get("prior")
    if prior:
        # the NCP is not factory-fresh: it still holds an earlier network with its own keys, counters, link keys, children
        import bellows.types as bt

        sim.network = bt.EmberNetworkParameters(extendedPanId=bt.ExtendedPanId.deserialize(bytes.fromhex("f1f2f3f4f5f6f7f8"))[0], panId=0x7A7A,
                                                radioTxPower=8, radioChannel=25, joinMethod=0, nwkManagerId=0, nwkUpdateId=9, channels=1 << 25)
        sim.current_sec = dict(hashed=v > 4, preconfiguredKey=bytes(range(0x70, 0x80)), networkKey=bytes(range(0x90, 0xA0)), seq=77,
                               tc_eui64=sim.eui64(), given_tc=None)
        sim.nwk_fc, sim.aps_fc = prior["fc"], prior["aps_fc"]
        for k in range(min(prior["nkeys"], len(sim.key_table))):
            sim.key_table[len(sim.key_table) - 1 - k] = (bytes([0xE0 + k] * 8), bytes([0xB0 + k] * 16))
        for k in range(prior["nchildren"]):
            sim.children[k] = (bytes([0xD0 + k] * 8), 0x5000 + k, 4)
        sim.stack_up = prior["up"]
        if not prior.get("joined", True):
            # ... or it has left that network (an interrupted restore): no network, no current keys, but the link-key
            # table and the counters are still in non-volatile memory
            sim.network, sim.current_sec, sim.stack_up = None, None, False
            sim.children = {}  # (leaving erased the child table)
    if plan.get("refuse_key") is not None and plan["net"]["link_keys"]:
        # the NCP refuses one particular link key (an address it does not accept); the others must still be restored
        sim.refuse_partner = bytes.fromhex(plan["net"]["link_keys"][plan["refuse_key"] % len(plan["net"]["link_keys"])]["partner"])
    ezsp = e.EZSP({"path": "/dev/null", "baudrate": 115200, "flow_control": None})
    sim.attach(ezsp)
    ezsp._switch_protocol_version(v)
    ezsp.start_ezsp()
    app = zshim.make_app()
    app._ezsp = ezsp
    out["sim"] = sim
    if cap.get("fw_small"):
        # the firmware's own table sizes are small; the application has configured the NCP at connect time, as it does
        await ezsp.write_config(app.config["ezsp_config"])
    def build_info(ni):
        keys = [zs.Key(key=zt.KeyData.deserialize(bytes.fromhex(k["key"]))[0], partner_ieee=zt.EUI64.deserialize(bytes.fromhex(k["partner"]))[0])
                for k in ni["link_keys"]]
        children = [zt.EUI64.deserialize(bytes.fromhex(c["ieee"]))[0] for c in ni["children"]]
        nwk_addresses = {zt.EUI64.deserialize(bytes.fromhex(c["ieee"]))[0]: zt.NWK(c["nwk"]) for c in ni["children"] if c["nwk"] is not None}
        # "unknown" is either zigpy's own constant or an equal value that came from somewhere else (a backup parsed from JSON)
        tc_partner = zt.EUI64.UNKNOWN if ni["tc_addr"] is None else zt.EUI64.deserialize(bytes.fromhex(ni["tc_addr"]))[0]
        stack_specific = {}
        if ni["hashed_tclk"] is not None:
            stack_specific = {"ezsp": {"hashed_tclk": ni["hashed_tclk"]}}
        if plan.get("allow_burn"):
            stack_specific.setdefault("ezsp", {})["i_understand_i_can_update_eui64_only_once_and_i_still_want_to_do_it"] = True
        network_info = zs.NetworkInfo(
            extended_pan_id=zt.ExtendedPanId.deserialize(bytes.fromhex(ni["epid"]))[0], pan_id=zt.PanId(ni["pan"]), nwk_update_id=ni["update_id"],
            nwk_manager_id=zt.NWK(0), channel=ni["channel"], channel_mask=zt.Channels(ni["mask"]), security_level=5,
            network_key=zs.Key(key=zt.KeyData.deserialize(bytes.fromhex(ni["nwk_key"]))[0], seq=ni["nwk_seq"], tx_counter=ni["nwk_fc"]),
            tc_link_key=zs.Key(key=zt.KeyData.deserialize(bytes.fromhex(ni["tclk"]))[0], partner_ieee=tc_partner, tx_counter=ni["tclk_fc"]),
            key_table=keys, children=children, nwk_addresses=nwk_addresses, stack_specific=stack_specific)
        return network_info

    ni = plan["net"]
    network_info = build_info(ni)
    node_ieee = {"same": zt.EUI64.deserialize(sim.eui64())[0], "unknown": zt.EUI64.UNKNOWN,
                 "other": zt.EUI64.deserialize(bytes.fromhex("c1c2c3c4c5c6c7c8"))[0]}[plan["node_ieee"]]
    node_info = zs.NodeInfo(nwk=zt.NWK(0), ieee=node_ieee, logical_type=zdo_t.LogicalType.Coordinator)
    if plan.get("earlier"):
        # an earlier restore + read-back of another backup through the SAME application object (possibly of the same network
        # at a later moment: same network key, higher counters, other devices): nothing of it may survive into the next one
        try:
            ei = build_info(plan["earlier"])
            await asyncio.wait_for(app.write_network_info(network_info=ei, node_info=zs.NodeInfo(nwk=zt.NWK(0), ieee=node_ieee, logical_type=zdo_t.LogicalType.Coordinator)), 5000)
            await asyncio.wait_for(app.load_network_info(load_devices=True), 5000)
            out["earlier"] = "ok"
        except Exception as ex:
            out["earlier"] = type(ex).__name__
    if plan.get("read_first"):
        # the application has already read whatever the NCP held before (start-up does that): nothing of it may show up
        # in what is read back after the restore
        try:
            await asyncio.wait_for(app.load_network_info(load_devices=True), 5000)
            out["read_first"] = "ok"
        except Exception as ex:
            out["read_first"] = type(ex).__name__
    out["log0"] = len(sim.log)
    out["eui_before"] = sim.eui64()
    out["node_ieee_written"] = bytes(node_ieee.serialize())
    out["rewritable"] = bool(cap["nv3"] and cap["token_cmds"] and "getTokenData" in sim.cls.COMMANDS)
    try:
        await asyncio.wait_for(app.write_network_info(network_info=network_info, node_info=node_info), 5000)
        out["write"] = None
    except Exception as ex:
        out["write"] = ex
        return
    out["eui_after"] = sim.eui64()
    out["supplied_stack_specific"] = network_info.stack_specific
    out["erased"] = None
    if plan.get("erase") is not None:
        # a device left after the restore and its key was erased: the table now has a hole in front of other entries
        used = [i for i, e_ in enumerate(sim.key_table) if e_ is not None]
        if used:
            i = used[plan["erase"] % len(used)]
            out["erased"] = (hx(sim.key_table[i][0]), hx(sim.key_table[i][1]))
            sim.key_table[i] = None
    try:
        await asyncio.wait_for(app.load_network_info(load_devices=True), 5000)
        out["load"] = None
    except Exception as ex:
        out["load"] = ex
        return
    out["read"] = app.state.network_info
    out["node"] = app.state.node_info
    if plan.get("reload"):
        # the settings are read once more on the same connection (start-up reads them, a backup reads them again)
        try:
            await asyncio.wait_for(app.load_network_info(load_devices=True), 5000)
        except Exception as ex:
            out["load"] = ex
            return
        out["read"] = app.state.network_info
        out["node"] = app.state.node_info


def check(plan) -> Result:
    r = Result()
    out = {}
    v = plan["v"]
    vt = f"v{v}"
    try:
        vloop.run_case(lambda loop: scenario(loop, plan, out), horizon=1e7)
    except vloop.Hang:
        r.bad("C14:hang", f"{plan}")
        return r
    sim = out["sim"]
    if sim.unhandled:
        r.bad("C14:harness:unhandled-command", f"{sorted(set(sim.unhandled))}; plan {plan}")
        return r
    for phase in ("write", "load"):
        if out.get(phase) is not None:
            r.bad(f"C14:{phase}-raises:{type(out[phase]).__name__}", f"{out[phase]!r}; plan {plan}")
            return r
    ni = plan["net"]
    rd = out["read"]
    rewrote = any((n == "setTokenData" and bytes(a.get("token_data", b"")) not in (b"", b"\xff" * 8)) or
                  (n == "setMfgToken" and a.get("tokenId") is not None and a["tokenId"].name == "MFG_CUSTOM_EUI_64")
                  for _, n, a in sim.log[out.get("log0", 0):])

    def cmp(field, got, want):
        if got != want:
            r.bad(f"C14:readback-differs:{field}" + (f":{vt}" if field in ("link-keys", "children", "nwk-frame-counter") else ""),
                  f"{field}: read {got!r}, written {want!r}; plan {plan}")

    cmp("pan-id", int(rd.pan_id), ni["pan"])
    cmp("extended-pan-id", hx(rd.extended_pan_id.serialize()), ni["epid"])
    cmp("channel", int(rd.channel), ni["channel"])
    cmp("channel-mask", int(rd.channel_mask), ni["mask"])
    cmp("update-id", int(rd.nwk_update_id), ni["update_id"])
    cmp("network-key", hx(rd.network_key.key.serialize()), ni["nwk_key"])
    cmp("network-key-seq", int(rd.network_key.seq), ni["nwk_seq"])
    if v >= 5:
        cmp("nwk-frame-counter", int(rd.network_key.tx_counter), ni["nwk_fc"])
    # trust-centre link key + hashed form
    isc = sim.recorded_initial[-1] if sim.recorded_initial else None
    if isc is None:
        r.bad("C14:no-security-state-sent", f"plan {plan}")
        return r
    sent_pre = hx(isc.preconfiguredKey.serialize())
    if v > 4:
        cmp("tc-link-key", hx(rd.tc_link_key.key.serialize()), hx(WELL_KNOWN))
        hashed_read = (rd.stack_specific.get("ezsp") or {}).get("hashed_tclk")
        supplied = ni["hashed_tclk"]
        if supplied is not None:
            cmp("hashed-tclk", hashed_read, supplied)
            cmp("security-state:preconfigured-key", sent_pre, supplied)
        else:
            cmp("hashed-tclk", hashed_read, sent_pre)
    else:
        cmp("tc-link-key", hx(rd.tc_link_key.key.serialize()), ni["tclk"])
        cmp("security-state:preconfigured-key", sent_pre, ni["tclk"])
    # security state sent to the NCP
    cmp("security-state:network-key", hx(isc.networkKey.serialize()), ni["nwk_key"])
    cmp("security-state:network-key-seq", int(isc.networkKeySequenceNumber), ni["nwk_seq"])
    bm = int(isc.bitmask)
    tc_known = (ni["tc_addr"] not in (None, "ff" * 8)) or not rewrote  # without a rewrite bellows substitutes the NCP's own address
    if bool(bm & 0x0040) != tc_known:
        r.bad("C14:security-state:have-tc-eui64-flag", f"flag {bool(bm & 0x0040)}, trust-centre address known {tc_known}; plan {plan}")
    if ((bm & 0x0084) == 0x0084) != (v > 4):
        r.bad("C14:security-state:hashed-flag", f"bitmask 0x{bm:04X}; plan {plan}")
    for flag, name in ((0x0100, "HAVE_PRECONFIGURED_KEY"), (0x0200, "HAVE_NETWORK_KEY")):
        if not bm & flag:
            r.bad(f"C14:security-state:{name}-missing", f"bitmask 0x{bm:04X}; plan {plan}")
    # node address: when the NCP's EUI64 is rewritable and the backup names one, the NCP must end up with it
    if out["rewritable"] and plan["node_ieee"] != "unknown":
        got_ieee = hx(out["node"].ieee.serialize())
        cmp("node-ieee", got_ieee, hx(out["node_ieee_written"]))
        cmp("ncp-eui64", hx(sim.eui64()), hx(out["node_ieee_written"]))
    # link keys as a set of (partner, key)
    want_keys = {(k["partner"], k["key"]) for k in ni["link_keys"]}
    if sim.refuse_partner is not None:
        want_keys = {k_ for k_ in want_keys if k_[0] != hx(sim.refuse_partner)}
        r.cls("one-link-key-refused-by-ncp")
    if out.get("erased"):
        want_keys.discard(out["erased"])
        r.cls("key-erased-after-restore")
    # compared as multisets: an entry read back twice is not "the same table"
    got_keys = [(hx(k.partner_ieee.serialize()), hx(k.key.serialize())) for k in rd.key_table]
    cmp("link-keys", sorted(got_keys), sorted(want_keys))
    if v >= 9:
        want_children = {c["ieee"] for c in ni["children"] if c["nwk"] is not None}
        got_children = [hx(c.serialize()) for c in rd.children]
        cmp("children", sorted(got_children), sorted(want_children))
        want_addr = {c["ieee"]: c["nwk"] for c in ni["children"] if c["nwk"] is not None}
        got_addr = {hx(k.serialize()): int(n) for k, n in rd.nwk_addresses.items() if hx(k.serialize()) in want_addr}
        cmp("children-nwk-addresses", got_addr, want_addr)
    r.nontrivial = bool(ni["link_keys"]) or bool(ni["children"]) or rewrote
    r.cls(vt)
    if rewrote:
        r.cls("eui64-rewritten")
    if plan["cap"].get("nv3_custom"):
        r.cls("ncp-already-had-custom-eui64")
    if plan["cap"].get("prior"):
        r.cls("ncp-held-an-earlier-network")
    if plan["cap"].get("fw_small"):
        r.cls("firmware-table-sizes-small")
    if plan.get("reload"):
        r.cls("read-twice")
    if out.get("read_first"):
        r.cls("application-had-read-the-earlier-network:" + out["read_first"])
    if out.get("earlier"):
        r.cls("earlier-restore-through-the-same-application:" + out["earlier"])
    if ni["link_keys"]:
        r.cls("link-keys")
    if ni["children"]:
        r.cls("children")
    if ni["hashed_tclk"] is None:
        r.cls("hashed-tclk-generated")
    if ni["tc_addr"] in (None, "ff" * 8):
        r.cls("tc-address-unknown")
    return r


def replay(plan) -> Result:
    return check(plan)


key16 = st.one_of(st.binary(min_size=16, max_size=16), st.just(WELL_KNOWN), st.just(b"\x00" * 16), st.just(b"\xff" * 16)).map(hx)
eui8 = st.binary(min_size=8, max_size=8).filter(lambda b: b not in (b"\xff" * 8, b"\x00" * 8)).map(hx)


@st.composite
def plans(draw, versions=tuple(range(4, 15))):
    v = draw(st.sampled_from(list(versions)))
    fw_small = draw(st.integers(0, 3)) == 0
    ktab = 4 if fw_small else draw(st.sampled_from([4, 12]))
    nkeys = draw(st.integers(0, min(ktab, 6)))
    partners = draw(st.lists(eui8, min_size=nkeys, max_size=nkeys, unique=True))
    nch = draw(st.integers(0, 5))
    ch_ieee = draw(st.lists(eui8, min_size=nch, max_size=nch, unique=True))
    channel = draw(st.integers(11, 26))
    net = {
        "pan": draw(st.integers(0, 0xFFFE)), "epid": draw(eui8), "channel": channel,
        # usually the mask contains the operating channel, but a backup need not be that tidy
        "mask": draw(st.sampled_from([1 << channel, 0x07FFF800, (1 << channel) | (1 << 11), 1 << (11 + (channel - 10) % 16),
                                      0x07FFF800 & ~(1 << channel)])),
        "update_id": draw(st.integers(0, 255)), "nwk_key": draw(key16), "nwk_seq": draw(st.integers(0, 255)),
        "nwk_fc": draw(st.one_of(st.integers(0, 2**32 - 1), st.sampled_from([0, 1, 2**32 - 1]))),
        "tclk": draw(st.one_of(st.just(hx(WELL_KNOWN)), st.just(hx(WELL_KNOWN)), key16)) if v == 4 else hx(WELL_KNOWN),
        "tclk_fc": draw(st.integers(0, 2**32 - 1)),
        "hashed_tclk": draw(st.one_of(st.none(), st.binary(min_size=16, max_size=16).map(hx))),
        "link_keys": [{"partner": p, "key": draw(key16)} for p in partners],
        "children": [{"ieee": c, "nwk": draw(st.one_of(st.none(), st.integers(1, 0xFFF7)))} for c in ch_ieee],
        "tc_addr": draw(st.one_of(st.none(), st.just("ff" * 8), eui8)),
    }
    cap = {"nv3": draw(st.booleans()), "mfg": draw(st.sampled_from(["burnable", "burnt", "absent"])), "token_cmds": draw(st.booleans()),
           "key_table": ktab, "nv3_custom": draw(st.sampled_from([None, None, "c1c2c3c4c5c6c7c8", "d1d2d3d4d5d6d7d8"]))}
    if fw_small:
        cap["fw_small"] = True
    if draw(st.booleans()):
        cap["prior"] = {"joined": draw(st.sampled_from([True, True, False])), "fc": draw(st.sampled_from([0x12345, 1, 2**32 - 2])), "aps_fc": draw(st.sampled_from([0, 0x777])),
                        "nkeys": draw(st.integers(0, 3)), "nchildren": draw(st.integers(0, 3)), "up": draw(st.booleans())}
    plan = {"v": v, "net": net, "cap": cap, "node_ieee": draw(st.sampled_from(["same", "other", "other", "unknown"])),
            "allow_burn": draw(st.booleans())}
    if draw(st.integers(0, 2)) == 0:
        plan["reload"] = True
    if cap.get("prior") and draw(st.booleans()):
        plan["read_first"] = True
    if draw(st.integers(0, 2)) == 0:
        same_key = draw(st.booleans())
        plan["earlier"] = dict(net, nwk_key=net["nwk_key"] if same_key else draw(key16),
                               nwk_fc=draw(st.sampled_from([net["nwk_fc"], min(net["nwk_fc"] + 70000, 2**32 - 1), 2**32 - 1, 0])),
                               nwk_seq=draw(st.sampled_from([net["nwk_seq"], (net["nwk_seq"] + 1) % 256])),
                               update_id=draw(st.integers(0, 255)), pan=draw(st.integers(0, 0xFFFE)),
                               link_keys=[{"partner": p, "key": draw(key16)} for p in draw(st.lists(eui8, max_size=min(ktab, 3), unique=True))],
                               children=[{"ieee": c, "nwk": draw(st.integers(1, 0xFFF7))} for c in draw(st.lists(eui8, max_size=3, unique=True))])
    if nkeys >= 2 and draw(st.integers(0, 2)) == 0:
        plan["refuse_key"] = draw(st.integers(0, nkeys - 2))
    if nkeys >= 2 and draw(st.booleans()):
        plan["erase"] = draw(st.integers(0, nkeys - 2))  # never the last used slot: a hole needs something behind it
    return plan


def _worker(ctx, job):
    n, versions = job
    ctx.search(plans(versions), check, max_examples=n)


def run(ctx):
    quick = ctx.tier == "quick"
    n = 110 if quick else 2500
    jobs = [(n, (v,)) for v in range(4, 16)] + [(n, tuple(range(4, 17)))] * 4
    ctx.parallel(_worker, jobs)
