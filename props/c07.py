"""C07 — EZSP frame headers and command schemas form a consistent codec in every version.

Every (version, command) pair is visited on every pass; a pass draws one argument tuple and
one response tuple per pair from type-directed strategies that also produce REFERENCE bytes
(vlib.values), sends the command through the real ProtocolHandler.command() into a fake
gateway, compares the bytes with vlib.refezsp.header + reference bytes, answers with the
reference encoding of the response values and compares what the call returns; then feeds
the same frame unsolicited and compares what the callbacks receive."""
from __future__ import annotations

import asyncio
import json
import logging
import os

from hypothesis import strategies as st

from vlib import refezsp, values, vloop
from vlib.run import Result

LEVEL = "exploration"
RULE = (
    "every (protocol version 4..14, command) pair is enumerated; per pass and pair Hypothesis draws a request "
    "sequence number, an argument tuple and a response tuple (boundary integers, defined and undefined enum values, "
    "empty and long variable-length fields, structs field by field). Quick: 8 passes, thorough: 150. A case = (version, "
    "command, values); non-trivial = the schemas have at least one field and the drawn values are not all zero/empty; "
    "distinct by (version, command, value bytes)."
)
ASSUMPTIONS = [
    "vlib/ezsp_pins.json pins frame IDs and wire shapes (field widths in order) of 63 commands per version, "
    "transcribed from UG100 as far as memory allows and cross-checked against the pinned tree when written",
    "reference value encodings come from vlib/values.py (little-endian fixed width, length prefixes, field order "
    "as declared in the schema); header layouts from vlib/refezsp.py (UG100)",
    "bellows' tables are the only available description of the firmware: internal consistency is what is decided",
]

_trailing = []


class _Trap(logging.Handler):
    def emit(self, record):
        if isinstance(record.msg, str) and record.msg.startswith("Frame contains trailing data"):
            _trailing.append(record.args)


_trap_installed = False


def install_trap():
    global _trap_installed
    if _trap_installed:
        return
    logging.disable(logging.NOTSET)
    root = logging.getLogger()
    root.addHandler(logging.NullHandler())
    root.setLevel(logging.CRITICAL)
    lg = logging.getLogger("bellows.ezsp.protocol")
    lg.setLevel(logging.DEBUG)
    lg.propagate = False
    lg.addHandler(_Trap())
    for name in ("bellows.ezsp", "bellows.zigbee.application", "bellows.uart", "bellows.ash", "asyncio"):
        logging.getLogger(name).setLevel(logging.CRITICAL)
    _trap_installed = True


def all_pairs():
    import bellows.ezsp as e

    out = []
    for v, cls in sorted(e.EZSP._BY_VERSION.items()):
        for name in cls.COMMANDS:
            out.append((v, name))
    return out


def check_tables() -> list:
    """(a) frame IDs unique per version, COMMANDS_BY_ID inverse, IDs fit the header layout."""
    import bellows.ezsp as e

    res = []
    for v, cls in sorted(e.EZSP._BY_VERSION.items()):
        r = Result(nontrivial=True, classes=["table"], key=["table", v])
        seen = {}
        for name, (cid, tx, rx) in cls.COMMANDS.items():
            if cid in seen:
                r.bad(f"C07:duplicate-frame-id:{seen[cid]}/{name}", f"v{v} id 0x{cid:04X}")
            seen[cid] = name
            if refezsp.layout(v) != "extended" and cid > 0xFF:
                r.bad(f"C07:frame-id-too-wide:{name}", f"v{v} id 0x{cid:04X}")
            if cls.VERSION != v:
                r.bad("C07:version-key-mismatch", f"{v} vs {cls.VERSION}")
        h = cls(lambda *a: None, None)
        if {cid: n for cid, (n, _, _) in h.COMMANDS_BY_ID.items()} != {cid: n for n, (cid, _, _) in cls.COMMANDS.items()}:
            r.bad("C07:by-id-not-inverse", f"v{v}")
        for cid, (n, tx, rx) in h.COMMANDS_BY_ID.items():
            if n not in cls.COMMANDS:
                r.bad("C07:by-id-names-foreign-command", f"v{v}: frame ID 0x{cid:04X} is looked up as {n!r}, which is not a command of this version")
            elif cls.COMMANDS[n][1] is not tx or cls.COMMANDS[n][2] is not rx:
                r.bad("C07:by-id-schema-mismatch", f"v{v} {n}")
        res.append(({"t": "table", "v": v}, r))
        # pinned frame IDs and wire shapes of the commands the rest of bellows depends on
        pins = json.load(open(os.path.join(os.path.dirname(values.__file__), "ezsp_pins.json")))
        rp = Result(nontrivial=True, classes=["pins"], key=["pins", v])
        for name, per_v in pins.items():
            if str(v) not in per_v:
                if name in cls.COMMANDS:
                    # a command offered in a further version breaks nothing the statement says; the round trips and the
                    # uniqueness checks judge it like every other entry
                    rp.cls("command-beyond-the-pinned-versions")
                continue
            if name not in cls.COMMANDS:
                rp.bad(f"C07:pinned-command-missing:{name}", f"v{v}")
                continue
            cid, tx, rx = cls.COMMANDS[name]
            want = per_v[str(v)]
            try:
                got = [cid, values.schema_shape(tx), values.schema_shape(rx)]
            except Exception as ex:
                got = repr(ex)
            if got != want:
                rp.bad(f"C07:pinned-shape-differs:{name}", f"v{v}: table {got} pinned {want}")
        res.append(({"t": "table", "v": v, "pins": True}, rp))
        # golden snapshot of every command's frame ID and wire shape (tools/mkshapes.py): table and struct edits that the
        # round trips cannot see because they draw their expectations from the same tables
        gold = json.load(open(os.path.join(os.path.dirname(values.__file__), "ezsp_shapes_all.json"))).get(str(v), {})
        rg = Result(nontrivial=True, classes=["golden-shapes"], key=["gold", v])
        for name in sorted(set(gold) | set(cls.COMMANDS)):
            if name not in cls.COMMANDS:
                rg.bad(f"C07:golden:command-missing:{name}", f"v{v}")
                continue
            if name not in gold:
                # an entry the snapshot does not know (a command or a whole version added later) is not a difference:
                # it is judged by the round trips and the uniqueness checks only
                rg.cls("command-not-in-snapshot")
                continue
            cid, tx, rx = cls.COMMANDS[name]
            try:
                got = [cid, values.schema_shape(tx), values.schema_shape(rx)]
            except Exception as ex:
                got = repr(ex)
            if got != gold[name]:
                rg.bad(f"C07:golden:shape-differs:{name}", f"v{v}: table {got} snapshot {gold[name]}")
        res.append(({"t": "table", "v": v, "gold": True}, rg))
    return res


class FakeGw:
    def __init__(self):
        self.sent = []
        self.on_send = None

    async def send_data(self, data):
        self.sent.append(bytes(data))
        if self.on_send:
            self.on_send(bytes(data))


async def one_pair(loop, v, name, seq, txv, txb, rxv, rxb) -> Result:
    import bellows.ezsp as e

    cls = e.EZSP._BY_VERSION[v]
    cid, tx_schema, rx_schema = cls.COMMANDS[name]
    nfields = (len(tx_schema) if isinstance(tx_schema, dict) else 1) + (len(rx_schema) if isinstance(rx_schema, dict) else 1)
    r = Result(nontrivial=nfields > 0 and not (values.trivial(txv) and values.trivial(rxv)),
               classes=[f"v{v}"], key=hash((v, name, txb, rxb)))
    ezsp = e.EZSP({"path": "/dev/null"})
    gw = FakeGw()
    ezsp._gw = gw
    h = cls(ezsp.handle_callback, gw)
    ezsp._protocol = h
    ezsp._ezsp_version = v
    got_cb = []
    ezsp.add_callback(lambda *a: got_cb.append(a))
    reply = refezsp.header(v, seq, cid, refezsp.RESPONSE) + rxb
    gw.on_send = lambda d: loop.call_soon(ezsp.frame_received, reply)
    want_tx = refezsp.header(v, seq, cid) + txb
    keys = list(tx_schema.keys()) if isinstance(tx_schema, dict) else None
    forms = [("positional", list(txv), {})]
    if keys:
        forms.append(("keyword", [], dict(zip(keys, txv))))
        half = len(keys) // 2
        forms.append(("mixed", list(txv[:half]), dict(zip(keys[half:], txv[half:]))))
        if len(keys) >= 2:
            # keyword order must not matter: the declared order decides the wire order
            forms.append(("keyword-reversed", [], dict(reversed(list(zip(keys, txv))))))
            forms.append(("mixed-reversed", list(txv[:1]), dict(reversed(list(zip(keys[1:], txv[1:]))))))
    # integer-like arguments may arrive as plain ints or as values of another fixed-width type (callers do both): the
    # DECLARED type decides the encoding
    if keys:
        import bellows.types as bt

        def other(v, T):
            if not isinstance(v, int) or isinstance(v, bool) or int(v) < 0 or not (isinstance(T, type) and issubclass(T, int)):
                return v, v
            size = getattr(T, "_size", None)
            iv = int(v)
            if iv < 256 and size != 1:
                return iv, bt.uint8_t(iv)
            if iv < 2 ** 32 and size != 4:
                return iv, bt.uint32_t(iv)
            if iv < 2 ** 64 and size != 8:
                return iv, bt.uint64_t(iv)
            return iv, v

        pairs = [other(v, tx_schema[k]) for k, v in zip(keys, txv)]
        if any(p[0] is not v or p[1] is not v for p, v in zip(pairs, txv)):
            forms.append(("plain-ints", [], dict(zip(keys, [p[0] for p in pairs]))))
            forms.append(("other-width-ints", [p[1] for p in pairs], {}))
    for form, args, kwargs in forms:
        h._seq = seq
        n0 = len(gw.sent)
        _trailing.clear()
        try:
            result = await asyncio.wait_for(h.command(name, *args, **kwargs), 30)
        except asyncio.TimeoutError:
            r.bad(f"C07:decode-fails:{name}", f"v{v} {name} {form}: reply {reply.hex()} did not complete the call")
            continue
        except Exception as ex:
            if name == "invalidCommand" and type(ex).__name__ == "InvalidCommandError":
                # a reply frame named invalidCommand is, by design, reported as this exception
                r.cls("invalidCommand-reply")
                result = rxv
            else:
                r.bad(f"C07:cannot-encode:{name}", f"v{v} {name} {form} args {txv}: {ex!r}")
                continue
        sent = gw.sent[n0:]
        if len(sent) != 1:
            r.bad(f"C07:not-one-frame:{name}", f"v{v} {form}: {len(sent)} frames")
            continue
        if sent[0] != want_tx:
            hl = len(refezsp.header(v, 0, 0))
            if sent[0][:hl] != want_tx[:hl]:
                r.bad(f"C07:header-mismatch:{refezsp.layout(v)}", f"v{v} {name} {form}: sent {sent[0][:hl].hex()} want {want_tx[:hl].hex()}")
            else:
                r.bad(f"C07:args-mismatch:{name}" if form == "positional" else f"C07:call-forms-differ:{name}",
                      f"v{v} {form} args {txv}: sent {sent[0][hl:].hex()} want {txb.hex()}")
        if h._seq != (seq + 1) % 256:
            r.bad("C07:sequence-not-advanced", f"v{v} {name}: {seq} -> {h._seq}")
        if not _same(result, rxv):
            r.bad(f"C07:decode-mismatch:{name}", f"v{v} {name}: returned {result!r} want {rxv!r} from {rxb.hex()}")
        if _trailing:
            r.bad(f"C07:trailing-data:{name}", f"v{v} {name}: {_trailing[:1]} from {rxb.hex()}")
    # the NCP refuses the command: an invalidCommand frame (0x58, one status field) under the call's own sequence number
    # goes through the receive path with ITS schema, whatever command is pending, and ends the call with InvalidCommandError
    if name != "invalidCommand":
        h._seq = seq
        reason = [0x36, 0x37, 0x3A, 0x00, 0xFE][seq % 5]
        # the reason is one EzspStatus byte up to v13 and a 32-bit unified status from v14 on
        refusal = refezsp.header(v, seq, 0x58, refezsp.RESPONSE) + (bytes([reason]) if v < 14 else bytes([reason, 0, 0, 0]))
        gw.on_send = lambda d: loop.call_soon(ezsp.frame_received, refusal)
        try:
            await asyncio.wait_for(h.command(name, *list(txv)), 30)
            r.bad(f"C07:refusal-not-reported:{name}", f"v{v} {name}: call returned although the NCP answered invalidCommand")
        except asyncio.TimeoutError:
            r.bad("C07:refusal-not-decoded", f"v{v} {name}: invalidCommand reply {refusal.hex()} did not end the call (pending rx schema {rx_schema!r})")
        except Exception as ex:
            if type(ex).__name__ != "InvalidCommandError":
                r.bad(f"C07:refusal-raises:{type(ex).__name__}", f"v{v} {name}: {ex!r}")
        r.cls("invalidCommand-refusal")
        gw.on_send = lambda d: loop.call_soon(ezsp.frame_received, reply)
    # unsolicited: same frame with nothing pending -> callbacks
    _trailing.clear()
    got_cb.clear()
    h._awaiting.clear()
    try:
        ezsp.frame_received(refezsp.header(v, (seq + 7) % 256, cid, refezsp.CALLBACK) + rxb)
    except Exception as ex:
        r.bad(f"C07:receive-raises:{name}", f"v{v}: {ex!r}")
    if len(got_cb) != 1 or got_cb[0][0] != name or not _same(got_cb[0][1], rxv):
        r.bad(f"C07:callback-mismatch:{name}", f"v{v} {name}: callbacks got {got_cb!r} want {rxv!r}")
    else:
        # the same encoding once more (an NCP may well report the same thing twice): it yields the same values again
        try:
            ezsp.frame_received(refezsp.header(v, (seq + 7) % 256, cid, refezsp.CALLBACK) + rxb)
        except Exception as ex:
            r.bad(f"C07:receive-raises:{name}", f"v{v}: {ex!r}")
        if len(got_cb) != 2 or got_cb[1][0] != name or not _same(got_cb[1][1], rxv):
            r.bad("C07:repeated-frame-not-decoded-again", f"v{v} {name}: second identical frame gave {got_cb[1:]!r}, want {rxv!r}")
    if _trailing:
        r.bad(f"C07:trailing-data:{name}", f"v{v} {name} (callback): {_trailing[:1]}")
    return r


def _same(got, want):
    try:
        if isinstance(want, list):
            return isinstance(got, list) and len(got) == len(want) and all(_same(g, w) for g, w in zip(got, want))
        return type(got) is type(want) and got == want or (got == want and isinstance(want, (int, bytes)))
    except Exception:
        return False


def schemas_ok(v, name):
    import bellows.ezsp as e

    cid, tx, rx = e.EZSP._BY_VERSION[v].COMMANDS[name]
    return isinstance(tx, dict) and (isinstance(rx, dict) or isinstance(rx, type))


def pair_strategy(v, name):
    import bellows.ezsp as e

    cid, tx, rx = e.EZSP._BY_VERSION[v].COMMANDS[name]
    txs = values.schema_strategy(tx) if isinstance(tx, dict) else st.just(([], b""))
    rxs = values.schema_strategy(rx) if isinstance(rx, (dict, type)) else st.just(([], b""))
    return st.tuples(st.one_of(st.integers(0, 255), st.sampled_from([0, 255, 254, 127, 128])), txs, rxs)


def run_pairs(items):
    """items: [(v, name, seq, txv, txb, rxv, rxb)] -> [Result] (one virtual loop for all)."""
    install_trap()

    async def body(loop):
        out = []
        for it in items:
            out.append(await one_pair(loop, *it))
        return out

    return vloop.run_case(body, horizon=1e9)


def replay(plan) -> Result:
    """Replay by regeneration: plan = {"v":..,"name":..,"seed":..}: draws the same strategy under a fixed seed."""
    if plan.get("t") == "table":
        for p, r in check_tables():
            if p["v"] == plan["v"] and bool(p.get("pins")) == bool(plan.get("pins")) and bool(p.get("gold")) == bool(plan.get("gold")):
                return r
    if "txb" in plan:
        import bellows.ezsp as e
        import bellows.types as t

        v, name = plan["v"], plan["name"]
        cid, tx, rx = e.EZSP._BY_VERSION[v].COMMANDS[name]
        txb, rxb = bytes.fromhex(plan["txb"]), bytes.fromhex(plan["rxb"])
        txv = list(t.deserialize_dict(txb, tx)[0].values()) if isinstance(tx, dict) else []
        if isinstance(rx, dict):
            rxv = list(t.deserialize_dict(rxb, rx)[0].values())
        elif isinstance(rx, type):
            rxv = rx.deserialize(rxb)[0]
        else:
            rxv = []
        (r,) = run_pairs([(v, name, plan["seq"], txv, txb, rxv, rxb)])
        return r
    import hypothesis
    from hypothesis import HealthCheck, Phase, given, settings

    v, name = plan["v"], plan["name"]
    acc = Result()

    @hypothesis.seed(plan.get("seed", 0))
    @settings(max_examples=plan.get("n", 25), database=None, deadline=None, phases=[Phase.generate],
              suppress_health_check=list(HealthCheck))
    @given(pair_strategy(v, name))
    def t(x):
        seq, (txv, txb), (rxv, rxb) = x
        (r,) = run_pairs([(v, name, seq, txv, txb, rxv, rxb)])
        for s, d in r.violations:
            if s not in [a for a, _ in acc.violations]:
                acc.bad(s, d)
        acc.nontrivial = acc.nontrivial or r.nontrivial

    t()
    return acc


def _worker(ctx, job):
    pairs, passes = job
    strat = st.tuples(*[pair_strategy(v, n) for v, n in pairs])
    seed = ctx.seed

    def fn(drawn):
        items = []
        for (v, n), (seq, (txv, txb), (rxv, rxb)) in zip(pairs, drawn):
            items.append((v, n, seq, txv, txb, rxv, rxb))
        results = run_pairs(items)
        agg = Result()
        for (v, n), r in zip(pairs, results):
            it = items[len(agg.classes)]
            agg.classes.append("x")
            plan = {"v": v, "name": n, "seq": it[2], "txb": it[4].hex(), "rxb": it[6].hex()}
            unknown = ctx.record(plan, r, sample=(n in ("sendUnicast", "getKey", "incomingMessageHandler")))
            for s, d in unknown:
                ctx.violation(s, plan, d)
        ctx.evaluations -= 1  # the aggregate itself is not a case
        agg.classes = []
        return agg

    ctx.search(strat, fn, max_examples=passes, shrink=False)


def run(ctx):
    quick = ctx.tier == "quick"
    for plan, r in check_tables():
        ctx.check(plan, r)
    ctx.exhaustive["frame-id uniqueness / inverse table, all versions"] = True
    pairs = all_pairs()
    ctx.extra["version_command_pairs"] = len(pairs)
    passes = 8 if quick else 150
    nj = 64
    jobs = [(pairs[i::nj], passes) for i in range(nj)]
    ctx.parallel(_worker, jobs)
