"""C19 — watchdog requests a restart only after the tolerated run of consecutive failures.

ControllerApplication._watchdog_feed() is fed outcome sequences; the keep-alive commands go
as real EZSP frames to vlib.simncp, which answers, stays silent (command timeout) or answers
invalidCommand (an EzspError) as the sequence dictates.  Oracle: a two-counter model."""
from __future__ import annotations

import asyncio
import itertools

from hypothesis import strategies as st

from vlib import simncp, vloop, zshim
from vlib.run import Result

LEVEL = "fault_enumeration"
RULE = (
    "outcome per feed: ok / timeout / EZSP error, and for protocol versions other than 4 the failing command is either "
    "the counter read or the free-buffer read, or success with the free-buffer read refused by a status (6 outcomes). Exhaustive: every outcome sequence of length L for version 4 "
    "(3^L, L = 8 quick / 10 thorough) and for versions 8 and 13 (5^L, L = 6 quick / 8 thorough; every shorter sequence "
    "is a prefix and is judged feed by feed); failures on and around the request that carries sequence byte 255; plus Hypothesis sequences of up to 400 feeds across the 180-feed clear "
    "period, and with the period patched to 3. Non-trivial = the sequence contains a run of at least 5 consecutive "
    "failures or a success after at least one failure; distinct by (version, period, sequence)."
)
ASSUMPTIONS = [
    "an EZSP error is produced by answering the keep-alive with an invalidCommand frame (InvalidCommandError is an EzspError)",
    "feeds are driven by calling _watchdog_feed() with the counters zeroed as _watchdog_loop() does; zigpy's loop around it is not under test",
    "ControllerApplication is constructed with the zigpy.util.Requests shim (vlib/zshim.py)",
]

from vlib import cfg

MAX_FAIL = cfg.watchdog_tolerated()  # tolerated consecutive failures (statement: 'more times in a row than the tolerated maximum')
OUT4 = ["ok", "timeout", "err"]
OUTN = ["ok", "timeout@counters", "err@counters", "timeout@buffers", "err@buffers", "ok:badstatus@buffers"]


class WdSim(simncp.SimNcp):
    def __init__(self, loop, version):
        super().__init__(loop, version)
        self.mode = "ok"
        self.nvals = 3  # how many counters the NCP reports (firmware may know fewer or more than the host's table)

    def _react(self, which, ok_fields):
        m = self.mode
        if m == "ok" or ("@" in m and not m.endswith(which)):
            return ok_fields
        if m.startswith("timeout"):
            return None
        return "INVALID"

    def _handle(self, data):
        super()._handle(data)

    def cmd_nop(self):
        return self._wrap(self._react("nop", {}))

    def cmd_readCounters(self):
        return self._wrap(self._react("counters", {"values": [(7 * i + 1) & 0xFFFF for i in range(self.nvals)]}))

    def cmd_readAndClearCounters(self):
        return self._wrap(self._react("counters", {"values": [(5 * i + 4) & 0xFFFF for i in range(self.nvals)]}))

    def cmd_getValue(self, valueId):
        if self.mode == "ok:badstatus@buffers":
            # the keep-alive is answered, but the value read is refused with a status: neither a timeout nor an EZSP error
            return {"status": "ERROR_INVALID_ID", "value": b""}
        return self._wrap(self._react("buffers", {"status": "OK", "value": b"\x20"}))

    def _wrap(self, x):
        if x == "INVALID":
            seq = self.raw[-1][1][0]
            self.invalid_command(seq)
            return None
        return x


async def scenario(loop, plan, r):
    import bellows.zigbee.application as app_mod

    v, seq = plan["v"], plan["seq"]
    period = plan.get("period", 180)
    app_mod.EZSP_COUNTERS_CLEAR_IN_WATCHDOG_PERIODS = period
    try:
        app = zshim.make_app()
        import bellows.ezsp as e

        sim = WdSim(loop, v)
        sim.nvals = plan.get("nvals", 3)
        ezsp = e.EZSP({"path": "/dev/null"})
        sim.attach(ezsp)
        ezsp._switch_protocol_version(v)
        ezsp.start_ezsp()
        app._ezsp = ezsp
        # start from a known state where the attributes exist under these names; an application that keeps its
        # bookkeeping elsewhere starts at zero by itself, and plans that preset the feed counter are then skipped
        if hasattr(app, "_watchdog_failures"):
            app._watchdog_failures = 0
        if hasattr(app, "_watchdog_feed_counter"):
            app._watchdog_feed_counter = plan.get("counter0", 0)
        elif plan.get("counter0"):
            r.cls("feed-counter-preset-unavailable")
            return
        between = plan.get("between") or []
        if between:
            import zigpy.types as zt

            ezsp.add_callback(app.ezsp_callback_handler)
            app.packet_received = lambda p: None
            app.state.node_info.nwk = zt.NWK(0x0000)

        async def other_activity(kind):
            """Things that happen between two feeds and are NOT feeds: incoming traffic, confirmations, status
            events, other commands that succeed.  None of them may touch the run of failed keep-alives."""
            from vlib import refezsp

            sim.mode = "ok"
            aps = refezsp.aps_frame(260, 6, 1, 1, 0x0140, 0, 5)
            if kind == "msg":
                ezsp.frame_received(refezsp.enc_incoming_message(sim.table_version, sim.last_resp_seq & 0xFF, mtype=0, aps=aps, lqi=200, rssi=-40,
                                                                 sender=0x1234, binding_index=0xFF, address_index=0xFF, message=b"\x01\x02\x03"))
            elif kind == "sent":
                ezsp.frame_received(refezsp.enc_message_sent(sim.table_version, sim.last_resp_seq & 0xFF, mtype=0, destination=0x1234, aps=aps, tag=9, status=0))
            elif kind == "status":
                ezsp.frame_received(refezsp.enc_stack_status(sim.table_version, sim.last_resp_seq & 0xFF, 0x90 if sim.table_version < 14 else 0x15))
            elif kind == "cmd":
                await ezsp.getNodeId()
            await asyncio.sleep(0.01)
        consecutive = 0
        ordinal = plan.get("counter0", 0)  # feeds since start: the watchdog has been running for a while
        saw_run = saw_recover = False
        sims = {v: sim}
        switch = {int(k_): nv for k_, nv in (plan.get("switch") or {}).items()}
        for k, oc in enumerate(seq):
            if k in switch:
                # the protocol version changes on the same connection (a reset puts EZSP back on version 4 until the
                # version is negotiated again): the keep-alive follows the version that is active NOW
                v = switch[k]
                if v not in sims:
                    sims[v] = WdSim(loop, v)
                    sims[v].nvals = plan.get("nvals", 3)
                sim = sims[v]
                sim.attach(ezsp)
                ezsp._switch_protocol_version(v)
                r.cls("version-switched-between-feeds")
            if k < len(between) and between[k]:
                await other_activity(between[k])
                r.cls("other-activity-between-feeds")
            sim.mode = {"err": "err@nop", "timeout": "timeout@nop"}.get(oc, oc) if v == 4 else oc
            n0 = len(sim.log)
            raised = None
            stopped = oc == "err:stopped"
            if stopped:
                # EZSP is stopped (a reset of the NCP is under way or has failed): the keep-alive cannot even be sent and
                # fails with an EZSP error - a failed feed like any other
                sim.mode = "ok"
                ezsp.stop_ezsp()
            if oc.startswith("timeout:switch"):
                # the keep-alive is in flight (never answered) when the protocol handler is replaced - what a reset or a
                # version negotiation does: for the watchdog it is an unanswered keep-alive like any other
                sim.mode = "timeout@nop" if v == 4 else "timeout@counters"
                loop.call_later(1.0, ezsp._switch_protocol_version, v)
            if oc.startswith("timeout:cb"):
                # the keep-alive is never answered, but while it waits the NCP emits a callback stamped with the keep-alive's
                # own sequence byte (callbacks carry the sequence of the last command the NCP received): not an answer
                from vlib import refezsp as _rz

                sim.mode = "timeout@nop" if v == 4 else "timeout@counters"
                n_raw = len(sim.raw)

                def stray(sim=sim, n_raw=n_raw):
                    if len(sim.raw) > n_raw:
                        seq_ = sim.raw[-1][1][0]
                        ezsp.frame_received(_rz.enc_stack_status(sim.table_version, seq_, 0x90 if sim.table_version < 14 else 0x15))

                loop.call_later(1.0, stray)
            try:
                await app._watchdog_feed()
            except (asyncio.TimeoutError, Exception) as ex:
                raised = ex
            except BaseException as ex:
                r.bad(f"C19:unexpected-exception:{type(ex).__name__}", f"feed {k + 1} of {plan}: {ex!r}")
                return
            if stopped:
                ezsp.start_ezsp()
            failure = not oc.startswith("ok")
            if failure:
                consecutive += 1
            else:
                if consecutive:
                    saw_recover = True
                consecutive = 0
            if consecutive > MAX_FAIL:
                saw_run = True
            should_raise = failure and consecutive > MAX_FAIL
            if should_raise and raised is None:
                r.bad("C19:no-restart-request-after-tolerated-run", f"feed {k + 1} of {plan}: {consecutive} consecutive failures, no exception")
                return
            if raised is not None and not should_raise:
                r.bad("C19:restart-requested-too-early" if failure else "C19:restart-requested-on-success",
                      f"feed {k + 1} of {plan}: {consecutive} consecutive failures, raised {raised!r}")
                return
            if raised is not None and not isinstance(raised, (asyncio.TimeoutError, app_mod.EzspError)):
                r.bad(f"C19:unexpected-exception:{type(raised).__name__}", f"feed {k + 1}: {raised!r}")
                return
            cmds = [n for _, n, _ in sim.log[n0:]]
            if stopped:
                if v != 4:
                    ordinal += 1
                want = []
                r.cls("feed-while-ezsp-stopped")
            elif v == 4:
                want = ["nop"]
            else:
                ordinal += 1
                first = "readAndClearCounters" if ordinal % period == 0 else "readCounters"
                want = [first] if (oc.endswith("@counters") or oc.startswith("timeout:switch") or oc.startswith("timeout:cb")) else [first, "getValue"]
                if first == "readAndClearCounters":
                    r.cls("clear-period-boundary")
            if cmds != want:
                r.bad("C19:wrong-keep-alive-commands", f"feed {k + 1} of {plan}: saw {cmds}, expected {want}")
                return
            if want and want[-1] == "getValue" and int(sim.log[-1][2]["valueId"]) != 0x03 and sim.log[-1][2]["valueId"].name != "VALUE_FREE_BUFFERS":
                r.bad("C19:wrong-value-id", f"{sim.log[-1]}")
        r.nontrivial = saw_run or saw_recover
        if saw_run:
            r.cls("run>tolerated")
        if saw_recover:
            r.cls("recovery")
    finally:
        app_mod.EZSP_COUNTERS_CLEAR_IN_WATCHDOG_PERIODS = 180


def check(plan) -> Result:
    r = Result()
    try:
        vloop.run_case(lambda loop: scenario(loop, plan, r), horizon=1e8)
    except vloop.Hang:
        r.bad("C19:hang", f"{plan}")
    r.cls(f"v{plan['v']}")
    return r


def replay(plan) -> Result:
    return check(plan)


def _worker_exh(ctx, job):
    v, L, prefix = job
    outs = OUT4 if v == 4 else OUTN
    for rest in itertools.product(outs, repeat=L - len(prefix)):
        plan = {"v": v, "seq": [outs[i] for i in prefix] + list(rest)}
        ctx.check(plan, check(plan), sample=(prefix[0] == 1 and rest[:3] == (outs[1], outs[1], outs[0])))


@st.composite
def long_plans(draw):
    v = draw(st.sampled_from([4, 7, 8, 13, 14, 15]))
    outs = OUT4 if v == 4 else OUTN
    period = draw(st.sampled_from([180, 180, 3, 5]))
    n = draw(st.integers(150, 400)) if period == 180 else draw(st.integers(10, 80))
    # runs of failures of varying length separated by successes
    seq = []
    while len(seq) < n:
        run = draw(st.integers(0, 7))
        seq += [draw(st.sampled_from(outs[1:] + ["timeout:switch", "timeout:cb"] + (["err:stopped"] if v == 4 else []))) for _ in range(run)]
        seq += ["ok"] * draw(st.integers(1, 40 if period == 180 else 3))
    plan = {"v": v, "period": period, "seq": seq[:n]}
    if period == 180 and draw(st.integers(0, 3)) == 0:
        plan["counter0"] = draw(st.sampled_from([2 ** 16 - 100, 2 ** 32 - 100, 179, 180 * 364]))
    if draw(st.integers(0, 2)) == 0:
        plan["nvals"] = draw(st.sampled_from([0, 1, 40, 41, 42, 43, 64, 100]))
    if draw(st.booleans()):
        plan["between"] = draw(st.lists(st.sampled_from([None, None, None, "msg", "sent", "status", "cmd"]), min_size=n, max_size=n))
    return plan


def _worker_between(ctx, job):
    """Runs of failures with one other event placed between two of the failed feeds."""
    v, kind = job
    outs = OUT4 if v == 4 else OUTN
    for fail in outs[1:]:
        if fail.startswith("ok"):
            continue
        for pos in range(1, 6):
            seq = ["ok"] + [fail] * 6
            between = [None] * len(seq)
            between[pos] = kind
            plan = {"v": v, "seq": seq, "between": between}
            ctx.check(plan, check(plan), sample=(pos == 3 and kind == "msg"))


def _worker_stopped(ctx, job):
    """Every sequence of length 6 over {ok, one ordinary failure, feed while EZSP is stopped}."""
    v, first = job
    outs = ["ok", "timeout" if v == 4 else "timeout@counters", "err:stopped"]
    for rest in itertools.product(outs, repeat=5):
        plan = {"v": v, "seq": [outs[first]] + list(rest)}
        ctx.check(plan, check(plan), sample=(first == 2 and rest[:2] == ("err:stopped", "ok")))


def _worker_vswitch(ctx, job):
    v0, v1 = job
    for k1 in (1, 2, 4):
        for k2 in (None, k1 + 1, k1 + 3):
            for fail in ("ok", "timeout"):
                seq = []
                for i in range(10):
                    seq.append("ok" if fail == "ok" or i % 3 else "timeout")
                sw = {str(k1): v1}
                if k2 is not None:
                    sw[str(k2)] = v0
                # outcomes are named per version: translate for feeds that run on a non-4 version
                vs, cur = [], v0
                for i in range(10):
                    cur = int(sw.get(str(i), cur))
                    vs.append(cur)
                seq = [o if (o == "ok" or vs[i] == 4) else "timeout@counters" for i, o in enumerate(seq)]
                plan = {"v": v0, "seq": seq, "switch": sw}
                ctx.check(plan, check(plan), sample=(k1 == 2 and k2 is None and fail == "ok"))


def _worker_misc(ctx, job):
    """(a) runs of unanswered keep-alives some of which are in flight while the protocol handler is replaced;
    (b) the read-and-clear period across the 16-, 31- and 32-bit boundaries of the feed counter."""
    v, what = job
    fail = "timeout" if v == 4 else "timeout@counters"
    if what == "switch":
        for pos in itertools.product([fail, "timeout:switch"], repeat=6):
            plan = {"v": v, "seq": ["ok"] + list(pos) + ["ok", "timeout:switch", "ok"]}
            ctx.check(plan, check(plan), sample=(pos[2] == "timeout:switch" and pos[0] == fail))
        for pos in itertools.product([fail, "timeout:cb"], repeat=6):
            plan = {"v": v, "seq": ["ok"] + list(pos) + ["ok", "timeout:cb", "ok"]}
            ctx.check(plan, check(plan), sample=(pos[2] == "timeout:cb" and pos[0] == fail))
    elif v != 4:
        for c0 in (2 ** 16 - 200, 2 ** 31 - 200, 2 ** 32 - 200, 180 * 1000 - 5):
            plan = {"v": v, "counter0": c0, "seq": ["ok"] * 420}
            ctx.check(plan, check(plan), sample=(c0 == 2 ** 16 - 200))


def _worker_wrap(ctx, job):
    """Failed keep-alives placed on and around the request that carries sequence byte 255 (and 0) of the protocol
    handler: the outcome of a feed must not depend on which sequence number its command happened to get."""
    v, fail = job
    per_feed = 1 if v == 4 else 2
    for n in range(256 // per_feed - 6, 256 // per_feed + 3):
        for run in (1, 6):
            plan = {"v": v, "seq": ["ok"] * n + [fail] * run + ["ok", "ok"]}
            ctx.check(plan, check(plan), sample=(n == 256 // per_feed - 1 and run == 1))


def _worker_nvals(ctx, job):
    """The counter read is answered with fewer or more counters than the host's table names: an answered keep-alive is a
    successful feed whatever the length of the list."""
    v, nvals = job
    fail = "timeout@counters"
    for seq in (["ok"] * 4, ["ok", fail, fail, fail, fail, "ok", "ok"], [fail] * 5 + ["ok"], ["ok", "ok:badstatus@buffers"] * 4):
        for period in (180, 3):
            plan = {"v": v, "seq": seq, "nvals": nvals, "period": period}
            ctx.check(plan, check(plan), sample=(nvals == 42 and period == 3 and len(seq) == 4))


def _worker_long(ctx, n):
    ctx.search(long_plans(), check, max_examples=n)


def run(ctx):
    quick = ctx.tier == "quick"
    L4, LN = (8, 6) if quick else (10, 8)
    jobs = [(4, L4, [a, b]) for a in range(3) for b in range(3)]
    for v in (8, 13):
        jobs += [(v, LN, [a, b]) for a in range(len(OUTN)) for b in range(len(OUTN))]
    # split the heavy jobs further by running them through the pool
    ctx.parallel(_worker_exh, jobs)
    ctx.exhaustive[f"all outcome sequences: v4 length {L4}, v8/v13 length {LN}"] = True
    ctx.parallel(_worker_between, [(v, kind) for v in (4, 8, 13, 14) for kind in ("msg", "sent", "status", "cmd")])
    # only protocol version 4 keeps alive with a plain command (nop), which the stopped EZSP object refuses at once; the
    # counter read of later versions is a handler-level helper that does not pass through that gate (not judged here)
    ctx.parallel(_worker_stopped, [(4, f) for f in range(3)])
    ctx.parallel(_worker_misc, [(v, what) for v in (4, 8, 14) for what in ("switch", "counter")])
    ctx.parallel(_worker_vswitch, [(8, 4), (4, 8), (13, 4), (4, 14), (14, 4)])
    ctx.parallel(_worker_wrap, [(4, f) for f in OUT4[1:]] + [(v, f) for v in (8, 14) for f in OUTN[1:5]])
    ctx.parallel(_worker_nvals, [(v, n) for v in (7, 8, 14) for n in (0, 1, 39, 40, 41, 42, 43, 64, 200)])
    ctx.parallel(_worker_long, [12] * 16 if quick else [300] * 16)
