"""C06 — each EZSP command gets its own response; one in flight; keep-alives first.

EZSP + the real version handler at the gateway boundary, virtual time.  The fake gateway
plays the NCP: the k-th request frame it sees gets behaviour k of the plan.  The oracle is a
set of invariants over one log (arrivals, request frames with their bytes, injected frames,
callback invocations, caller outcomes with times)."""
from __future__ import annotations

import asyncio

from hypothesis import strategies as st

from vlib import refezsp, vloop
from vlib.run import Result

LEVEL = "exploration"
RULE = (
    "a plan = protocol version, up to 12 callers (thorough: runs of 300 to wrap the sequence byte) arriving on a 10 ms grid "
    "with commands from the three priority classes, per request frame a gateway behaviour {accept at once, accept after a "
    "delay, raise} and an NCP behaviour {reply after d, reply after the timeout, never, reply twice, callback before the "
    "reply, callback after it}, and caller cancellations at generated offsets (while queued, inside send_data, while "
    "awaiting the reply), optionally up to five transient listeners added and removed at generated instants. Non-trivial = at least two callers overlapped and at least one of {timeout, duplicate reply, "
    "cancellation, link failure, mixed priority classes} occurred; distinct by plan."
)
ASSUMPTIONS = [
    "the simulated NCP is conforming: replies carry the request's sequence number, callbacks carry the sequence number of "
    "the last response sent",
    "reply payloads are produced with bellows' serializers (C07 covers the codec); zigpy's PriorityDynamicBoundedSemaphore is trusted",
    "priority classes are written down from the statement: keep-alive {nop, readCounters, readAndClearCounters} > ordinary "
    "{getNodeId, networkState, getEui64, getConfigurationValue} > packet-send {sendUnicast, sendMulticast, sendBroadcast}; "
    "getValue / setSourceRoute are generated but never used as a witness",
]

KEEP, ORD, PKT, UNK = 2, 1, 0, None
MENU = {
    "nop": KEEP, "readCounters": KEEP, "readAndClearCounters": KEEP,
    "getNodeId": ORD, "networkState": ORD, "getEui64": ORD, "getConfigurationValue": ORD,
    "sendUnicast": PKT, "sendBroadcast": PKT, "sendMulticast": PKT,
    "getValue": UNK, "setSourceRoute": UNK,
}
NAMES = sorted(MENU)
from vlib import cfg

TIMEOUT = cfg.cmd_timeout()  # "the command timeout"


def zero_values(schema):
    import bellows.types as t

    vals, _ = t.deserialize_dict(b"\x00" * 400, schema)
    return vals


def build_args(cls, name, ident):
    """kwargs for caller `ident`: zeros everywhere, the identity in the first suitable integer field."""
    cid, tx, rx = cls.COMMANDS[name]
    vals = zero_values(tx)
    pref = {"getConfigurationValue": "configId", "getValue": "valueId", "sendUnicast": "messageTag",
            "sendBroadcast": "messageTag", "sendMulticast": "messageTag", "setSourceRoute": "destination"}.get(name)
    if pref in vals:
        vals[pref] = type(vals[pref])(ident & 0xFF)
    return dict(vals)


def build_reply(cls, name, tag):
    """(rx bytes, expected decoded list) with `tag` in every plain integer field wide enough."""
    import bellows.types as t

    cid, tx, rx = cls.COMMANDS[name]
    vals = zero_values(rx)
    for k, T in rx.items():
        v = vals[k]
        if k in ("status",):
            continue
        if isinstance(v, int):
            size = len(T(0).serialize())
            vals[k] = T(tag % (1 << (8 * size)))
        elif isinstance(v, list) and not v and hasattr(T, "_item_type") and getattr(T, "_length", None) is None:
            vals[k] = T([T._item_type(tag & 0xFFFF), T._item_type(1)])
        elif isinstance(v, list) and v and isinstance(v[0], int):
            vals[k] = T([T._item_type((tag >> (8 * i)) & 0xFF) for i in range(len(v))])
    data = b"".join(T(vals[k]).serialize() for k, T in rx.items())
    return data, list(vals.values())


class Gw:
    def __init__(self, loop, world):
        self.loop = loop
        self.w = world

    async def send_data(self, data):
        await self.w.on_frame(bytes(data))


class World:
    pass


async def scenario(loop, plan, w):
    import bellows.ezsp as e

    v = plan["v"]
    cls = e.EZSP._BY_VERSION[v]
    ezsp = e.EZSP({"path": "/dev/null"})
    gw = Gw(loop, w)
    ezsp._gw = gw
    h = cls(ezsp.handle_callback, gw)
    ezsp._protocol = h
    ezsp._ezsp_version = v
    ezsp.start_ezsp()
    h._seq = plan.get("seq0", 0)
    w.log = log = []
    w.frames = []  # request frames in order: dict(t, seq, id, payload, beh)
    w.cb_calls = {0: [], 1: []}
    ezsp.add_callback(lambda *a: w.cb_calls[0].append((loop.time(), a)))
    ezsp.add_callback(lambda *a: w.cb_calls[1].append((loop.time(), a)))
    w.injected_cbs = []
    # transient listeners that come and go while traffic flows (what scans and other list commands do)
    w.dyn = []
    for j, (t_add, t_rm) in enumerate(plan.get("regs") or []):
        d = {"calls": [], "added": None, "removed": None, "id": None}
        w.dyn.append(d)

        def _add(d=d):
            d["id"] = ezsp.add_callback(lambda *a, d=d: d["calls"].append((loop.time(), a)))
            d["added"] = loop.time()

        def _rm(d=d):
            if d["id"] is not None and d["removed"] is None:
                d["removed"] = loop.time()
                try:
                    ezsp.remove_callback(d["id"])
                except Exception as ex:  # judged below
                    d["remove_exc"] = repr(ex)

        loop.call_at(t_add, _add)
        if t_rm is not None:
            loop.call_at(t_rm, _rm)
    w.last_resp_seq = (plan.get("seq0", 0) - 1) % 256
    behs = plan["behaviours"]
    cb_id = cls.COMMANDS["stackStatusHandler"][0]
    cb_schema = cls.COMMANDS["stackStatusHandler"][2]

    def inject_callback(marker):
        T = list(cb_schema.values())[0]
        val = T(marker)
        frame = refezsp.header(v, w.last_resp_seq, cb_id, refezsp.CALLBACK) + val.serialize()
        w.injected_cbs.append((loop.time(), marker))
        ezsp.frame_received(frame)

    def reply(k, tag):
        f = w.frames[k]
        name = f["name"]
        data, expect = build_reply(cls, name, tag)
        w.last_resp_seq = f["seq"]
        log.append(("reply", loop.time(), k, tag))
        ezsp.frame_received(refezsp.header(v, f["seq"], f["id"], refezsp.RESPONSE) + data)

    async def on_frame(data):
        k = len(w.frames)
        parsed = refezsp.parse(v, data)
        by_id = {cid: n for n, (cid, _, _) in cls.COMMANDS.items()}
        f = {"t": loop.time(), "raw": data, "seq": data[0], "id": parsed[2] if parsed else None,
             "name": by_id.get(parsed[2]) if parsed else None, "payload": parsed[3] if parsed else None}
        beh = behs[k] if k < len(behs) and not getattr(w, "probing", False) else {"gw": "ok", "gwd": 0, "ncp": "reply", "d": 0.007}
        f["beh"] = beh
        w.frames.append(f)
        log.append(("frame", loop.time(), k))
        if beh["gw"] == "raise":
            f["accepted"] = None
            raise RuntimeError(f"link failure {k}")
        # the frame reaches the NCP; schedule its reaction
        tag = 1000 + k * 7
        f["tag"] = tag
        if f["name"] is not None:
            d = beh.get("d", 0.007)
            kind = beh["ncp"]
            if kind in ("reply", "twice", "cb-before", "cb-after"):
                if kind == "cb-before":
                    loop.call_later(max(d - 0.002, 0.001), inject_callback, 0x90 if v < 14 else 0x15)
                loop.call_later(d, reply, k, tag)
                if kind == "twice":
                    loop.call_later(d + 0.012, reply, k, tag)
                if kind == "cb-after":
                    loop.call_later(d + 0.002, inject_callback, 0x91 if v < 14 else 0x16)
            elif kind == "late":
                loop.call_later(TIMEOUT + beh["gwd"] + d + 0.5, reply, k, tag)
        if beh["gwd"]:
            await asyncio.sleep(beh["gwd"])
        f["accepted"] = loop.time()

    w.on_frame = on_frame
    w.callers = []
    tasks = []

    async def caller(i, c):
        name = c["name"]
        kwargs = build_args(cls, name, i)
        rec = {"i": i, "name": name, "arrive": loop.time(), "kwargs": kwargs, "outcome": None, "end": None}
        w.callers.append(rec)
        rec["want_payload"] = b"".join(T(kwargs[k]).serialize() for k, T in cls.COMMANDS[name][1].items())
        try:
            res = await getattr(ezsp, name)(**kwargs)
            rec["outcome"] = ("ok", res)
        except asyncio.CancelledError:
            rec["outcome"] = ("cancelled", None)
            rec["end"] = loop.time()
            raise
        except BaseException as ex:
            rec["outcome"] = (type(ex).__name__, str(ex))
        rec["end"] = loop.time()

    def start(i, c):
        t = asyncio.ensure_future(caller(i, c))
        tasks.append(t)
        if c.get("cancel") is not None:
            loop.call_later(c["cancel"], t.cancel)

    for i, c in enumerate(plan["callers"]):
        loop.call_at(c["at"], start, i, c)
    last = max([c["at"] for c in plan["callers"]] + [0])
    await asyncio.sleep(last + 0.0001)
    if tasks:
        await asyncio.wait(tasks, timeout=TIMEOUT * (len(tasks) + 2) + 50)
    w.pending = [t for t in tasks if not t.done()]
    await asyncio.sleep(TIMEOUT + 5)
    # O6: a fresh command starts immediately
    n0 = len(w.frames)
    t0 = loop.time()
    w.probing = True
    probe = asyncio.ensure_future(ezsp.getNodeId())
    await asyncio.sleep(0)
    await asyncio.sleep(0)
    w.probe_started = len(w.frames) > n0 and w.frames[n0]["t"] == t0
    try:
        await asyncio.wait_for(probe, 30)
        w.probe_ok = True
    except Exception as ex:
        w.probe_ok = repr(ex)
    w.awaiting_left = len(h._awaiting)


def check(plan) -> Result:
    r = Result()
    w = World()
    try:
        vloop.run_case(lambda loop: scenario(loop, plan, w), horizon=1e7)
    except vloop.Hang:
        r.bad("C06:hang", f"{plan}")
        return r
    if w.pending:
        r.bad("C06:caller-never-ends", f"{len(w.pending)} callers pending")
        return r
    callers = sorted(w.callers, key=lambda c: c["i"])
    frames = w.frames[:-1] if w.probe_started else w.frames
    nreq = len(frames)
    # map frames to callers by identity (name + argument bytes), FIFO among identical ones
    unmatched = {c["i"]: c for c in callers}
    for k, f in enumerate(frames):
        cand = [c for c in unmatched.values() if c["name"] == f["name"] and c["want_payload"] == f["payload"]
                and c["arrive"] <= f["t"] + 1e-9 and (c["end"] is None or c["end"] >= f["t"] - 1e-9)]
        if not cand:
            r.bad("C06:request-frame-matches-no-caller", f"frame {k}: {f['raw'].hex()}")
            return r
        c = min(cand, key=lambda c: (c["arrive"], c["i"]))
        del unmatched[c["i"]]
        c["frame"] = k
        f["caller"] = c
    # O3 sequence numbers
    for k, f in enumerate(frames):
        want = (plan.get("seq0", 0) + k) % 256
        if f["seq"] != want:
            r.bad("C06:sequence-not-consecutive", f"frame {k} has seq {f['seq']}, expected {want}")
            break
    # O1 one in flight
    for k in range(1, nreq):
        prev = frames[k - 1]["caller"]
        if prev["end"] is None or prev["end"] > frames[k]["t"] + 1e-9:
            r.bad("C06:two-commands-in-flight", f"frame {k} started at {frames[k]['t']} while caller {prev['i']} ({prev['name']}) ends at {prev['end']}")
            break
    # O2 priority order
    for k, f in enumerate(frames):
        c = f["caller"]
        pc = MENU[c["name"]]
        if pc is None:
            continue
        for o in callers:
            if o is c or MENU[o["name"]] is None:
                continue
            if o["arrive"] >= f["t"] - 1e-9:
                continue
            started = frames[o["frame"]]["t"] if "frame" in o else None
            if started is not None and started <= f["t"]:
                continue
            if o["end"] is not None and o["end"] <= f["t"] + 1e-9 and started is None:
                continue  # gave up (cancelled) before this start
            po = MENU[o["name"]]
            if po > pc:
                r.bad("C06:lower-priority-started-first", f"{c['name']} (caller {c['i']}) started at {f['t']} while {o['name']} (caller {o['i']}, arrived {o['arrive']}) was waiting")
            elif po == pc and o["arrive"] < c["arrive"] - 1e-9:
                r.bad("C06:not-fifo-within-class", f"{c['name']} (caller {c['i']}, arrived {c['arrive']}) started before {o['name']} (caller {o['i']}, arrived {o['arrive']})")
    # O4 outcomes
    import bellows.ezsp as e

    cls = e.EZSP._BY_VERSION[plan["v"]]
    flags = set()
    for c in callers:
        kind, val = c["outcome"]
        cancel_at = plan["callers"][c["i"]].get("cancel")
        if "frame" not in c:
            if kind != "cancelled":
                r.bad("C06:caller-ended-without-sending", f"caller {c['i']} {c['name']}: {kind} {val}")
            else:
                flags.add("cancel-queued")
            continue
        f = frames[c["frame"]]
        beh = f["beh"]
        if kind == "cancelled":
            flags.add("cancel")
            if cancel_at is None:
                r.bad("C06:spurious-cancel", f"caller {c['i']}")
            continue
        if beh["gw"] == "raise":
            flags.add("link-failure")
            if kind != "RuntimeError":
                r.bad("C06:link-failure-not-reported", f"caller {c['i']}: {kind} {val}")
            continue
        replies = beh["ncp"] in ("reply", "twice", "cb-before", "cb-after")
        t_reply = f["t"] + beh.get("d", 0.007)
        in_time = replies and t_reply >= f["accepted"] - 1e-9 or (replies and beh["gwd"] > beh.get("d", 0.007))
        if replies:
            data, expect = build_reply(cls, c["name"], f["tag"])
            if kind != "ok":
                r.bad("C06:reply-did-not-complete-call", f"caller {c['i']} {c['name']}: {kind} {val}; behaviour {beh}")
            elif not _eq(val, expect):
                r.bad("C06:caller-got-foreign-payload", f"caller {c['i']} {c['name']} frame {c['frame']}: got {val!r} expected {expect!r}")
            if beh["ncp"] == "twice":
                flags.add("duplicate")
        else:
            flags.add("timeout")
            if kind != "TimeoutError":
                r.bad("C06:no-reply-but-not-timeout", f"caller {c['i']} {c['name']}: {kind} {val!r}; behaviour {beh}")
            else:
                lo, hi = f["t"] + TIMEOUT, f["accepted"] + TIMEOUT
                if not (lo - 1e-6 <= c["end"] <= hi + 1e-6):
                    r.bad("C06:timeout-at-wrong-time", f"caller {c['i']}: ended {c['end']}, window [{lo}, {hi}]")
    # O5 callbacks: every injected callback reaches both registered callbacks exactly once; nothing else does
    for idx in (0, 1):
        got = [(t, a) for t, a in w.cb_calls[idx] if a[0] == "stackStatusHandler"]
        if len(got) != len(w.injected_cbs) or any(int(a[1][0]) != m or abs(t - ti) > 1e-9 for (t, a), (ti, m) in zip(got, w.injected_cbs)):
            r.bad("C06:callback-not-delivered-exactly-once", f"registered callback {idx}: got {got} injected {w.injected_cbs}")
        other = [(t, a) for t, a in w.cb_calls[idx] if a[0] != "stackStatusHandler"]
        # duplicates / late replies may reach the callbacks at most once each
        dup_allow = sum(1 for f in frames if f["beh"]["ncp"] in ("twice", "late"))
        if len(other) > dup_allow:
            r.bad("C06:reply-leaked-to-callbacks", f"callback {idx}: {other[:3]} (allowed {dup_allow})")
    for j, d in enumerate(w.dyn):
        if d.get("remove_exc"):
            r.bad("C06:remove-callback-raises", f"transient listener {j}: {d['remove_exc']}")
        if d["added"] is None:
            continue
        want = [(ti, m) for ti, m in w.injected_cbs if d["added"] < ti - 1e-7 and (d["removed"] is None or ti < d["removed"] - 1e-7)]
        maybe = [(ti, m) for ti, m in w.injected_cbs if abs(ti - d["added"]) <= 1e-7 or (d["removed"] is not None and abs(ti - d["removed"]) <= 1e-7)]
        got = [(t, int(a[1][0])) for t, a in d["calls"] if a[0] == "stackStatusHandler"]
        rest = [g for g in got if g not in maybe]
        if rest != want:
            r.bad("C06:callback-not-delivered-exactly-once:transient-listener",
                  f"listener {j} registered {d['added']}..{d['removed']}: got {got}, injected while registered {want}; regs {plan.get('regs')}")
        if want:
            flags.add("transient-listener")
    if w.injected_cbs:
        flags.add("callback")
    # O6
    if not w.probe_started:
        r.bad("C06:slot-leaked", "a fresh command did not start immediately after the run")
    if w.probe_ok is not True:
        r.bad("C06:fresh-command-failed", f"{w.probe_ok}")
    classes = {MENU[c["name"]] for c in callers if MENU[c["name"]] is not None}
    if len(classes) > 1:
        flags.add("mixed-priorities")
    overlapped = any(a["arrive"] < (b["end"] or 1e18) and b["arrive"] < (a["end"] or 1e18) for a in callers for b in callers if a["i"] < b["i"])
    r.nontrivial = overlapped and bool(flags - {"callback"})
    for fl in flags:
        r.cls(fl)
    if nreq + plan.get("seq0", 0) > 256:
        r.cls("sequence-wrap")
    r.cls(f"v{plan['v']}")
    return r


def _eq(a, b):
    try:
        return list(a) == list(b)
    except Exception:
        return a == b


def replay(plan) -> Result:
    return check(plan)


# --------------------------------------------------------------------- generators

behaviour = st.fixed_dictionaries({
    "gw": st.sampled_from(["ok", "ok", "ok", "ok", "raise"]),
    "gwd": st.sampled_from([0, 0, 0.0035, 1.0035]),
    "ncp": st.sampled_from(["reply", "reply", "reply", "late", "never", "twice", "cb-before", "cb-after"]),
    "d": st.sampled_from([0.007, 0.107, 2.007, 9.987]),
})


@st.composite
def plans(draw, versions=(4, 7, 13)):
    v = draw(st.sampled_from(list(versions)))
    n = draw(st.integers(1, 12))
    callers = []
    t = 0
    for i in range(n):
        t += draw(st.sampled_from([0, 0, 0, 1, 1, 3, 50, 1100]))
        c = {"at": round(t * 0.01 + 0.003 + i * 1e-5, 6), "name": draw(st.sampled_from(NAMES))}
        if draw(st.integers(0, 4)) == 0:
            c["cancel"] = draw(st.sampled_from([0.0005, 0.0042, 0.0518, 1.5001, 5.0001, 12.0001]))
        callers.append(c)
    behs = draw(st.lists(behaviour, min_size=0, max_size=n))
    plan = {"v": v, "seq0": draw(st.sampled_from([0, 0, 250, 255])), "callers": callers, "behaviours": behs}
    if draw(st.booleans()):
        horizon = max(int(t), 4)
        regs = []
        for _ in range(draw(st.integers(1, 5))):
            a = draw(st.integers(0, horizon))
            life = draw(st.one_of(st.none(), st.integers(1, horizon + 2)))
            regs.append([round(a * 0.01 + 0.00071, 6), None if life is None else round((a + life) * 0.01 + 0.00073, 6)])
        plan["regs"] = regs
    return plan


@st.composite
def wrap_plans(draw, versions=(4, 7, 13)):
    v = draw(st.sampled_from(list(versions)))
    n = 300
    names = draw(st.lists(st.sampled_from(NAMES), min_size=n, max_size=n))
    gaps = draw(st.lists(st.sampled_from([0, 0, 1, 2]), min_size=n, max_size=n))
    t = 0
    callers = []
    for i in range(n):
        t += gaps[i]
        callers.append({"at": round(t * 0.01 + 0.003 + i * 1e-6, 6), "name": names[i]})
    behs = draw(st.lists(st.fixed_dictionaries({"gw": st.just("ok"), "gwd": st.just(0),
                                               "ncp": st.sampled_from(["reply", "reply", "reply", "twice", "cb-after"]),
                                               "d": st.just(0.007)}), min_size=n, max_size=n))
    # a few requests near the start are never answered (their callers time out) or answered late: whatever they leave
    # behind is still there when the sequence byte comes round again
    for k in draw(st.lists(st.integers(0, 40), max_size=3, unique=True)):
        behs[k] = dict(behs[k], ncp=draw(st.sampled_from(["never", "never", "late"])), d=9.987)
    return {"v": v, "seq0": draw(st.integers(0, 255)), "callers": callers, "behaviours": behs}


def _worker(ctx, job):
    n, versions = job
    ctx.search(plans(versions), check, max_examples=n)


def _worker_wrap(ctx, job):
    n, versions = job
    ctx.search(wrap_plans(versions), check, max_examples=n, shrink=False)


def run(ctx):
    quick = ctx.tier == "quick"
    versions = (4, 7, 13) if quick else tuple(range(4, 15))
    ctx.parallel(_worker, [(700, versions)] * 16 if quick else [(12000, versions)] * 16)
    ctx.parallel(_worker_wrap, [(3, versions)] * 16 if quick else [(40, versions)] * 16)
