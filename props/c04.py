"""C04 — host receiver hands a DATA payload up iff its number is the next expected one;
exactly one ACK/NAK per DATA; RSTACK/ERROR reported; ACK/NAK/RST silent.

Frames are encoded by vlib.refash and fed one per data_received() call.  The oracle is an
8-state counter model written from the statement."""
from __future__ import annotations

import itertools

from hypothesis import strategies as st

from vlib import refash
from vlib.ashh import make_host
from vlib.run import Result

LEVEL = "fault_enumeration"
RULE = (
    "sequences of well-formed frames over the alphabet {DATA(frmNum 0..7 x reTx 0/1 x ackNum in {0,5}), "
    "ACK(0), ACK(3), NAK(0), NAK(3), RST, RSTACK(0x0B/0x02/0x55), ERROR(0x51/0x80)} plus the host's own reset request (writes RST, changes nothing else) = 43 symbols: every "
    "sequence of length L (quick 2, thorough 3) from each of the 8 expected-number start states, plus "
    "Hypothesis-generated sequences of 50..400 frames biased toward in-sequence frames so the counter wraps "
    "many times. Non-trivial = at least one DATA accepted and at least one refused in the sequence; "
    "distinct by (start state, sequence)."
)
ASSUMPTIONS = ["frames are built by vlib/refash.py (self-tested against UG101 literals)"]

SYMS = (
    [("D", f, r, a) for f in range(8) for r in (0, 1) for a in (0, 5)]
    + [("A", 0), ("A", 3), ("N", 0), ("N", 3), ("R",)]
    + [("K", c) for c in (0x0B, 0x02, 0x55)]
    + [("E", c) for c in (0x51, 0x80)]
    # not a frame: the host's own upper layer asks for a reset (writes RST); the receiver's expected number and what it
    # hands up must not move until the peer's RSTACK arrives
    + [("H",)]
)
assert len(SYMS) == 43


def encode(sym, idx):
    k = sym[0]
    if k == "D":
        payload = bytes([0xD0, idx & 0xFF, (idx >> 8) & 0xFF, sym[1]])
        return refash.wire(refash.enc_data(sym[1], sym[2], sym[3], payload)), payload
    if k == "A":
        return refash.wire(refash.enc_ack(sym[1])), None
    if k == "N":
        return refash.wire(refash.enc_nak(sym[1])), None
    if k == "R":
        return refash.wire(refash.enc_rst()), None
    if k == "K":
        return refash.wire(refash.enc_rstack(sym[1])), None
    if k == "E":
        return refash.wire(refash.enc_error(sym[1])), None
    raise ValueError(sym)


def check(plan) -> Result:
    start, seq = plan["start"], [tuple(s) for s in plan["seq"]]
    r = Result(key=[start, plan["seq"]])
    proto, tr, up = make_host()
    expected = 0
    idx = 0
    # reach the start state with in-sequence frames
    for i in range(start):
        data, _ = encode(("D", i, 0, 0), 9000 + i)
        proto.data_received(data)
        expected = (expected + 1) % 8
    if plan.get("up_raise"):
        # the EZSP layer raises while handling every n-th frame it is handed (after having taken it)
        _dr, cnt = up.data_received, {"n": 0}

        def _data_received(data):
            _dr(data)
            cnt["n"] += 1
            if cnt["n"] % plan["up_raise"] == 0:
                raise RuntimeError("upper layer failed while handling a frame")

        up.data_received = _data_received
        r.cls("upper-layer-raises")
    acc = ref = wraps = 0
    for sym in seq:
        idx += 1
        w0, e0 = len(tr.writes), len(up.events)
        if sym[0] == "H":
            try:
                proto.send_reset()
            except Exception as e:
                r.bad("C04:raises", f"send_reset at {idx}: {e!r}")
                return r
            got = b"".join(d for _, d in tr.writes[w0:])
            if got != bytes.fromhex("1ac038bc7e") or up.events[e0:]:
                r.bad("C04:host-reset-request-side-effects", f"step {idx}: wrote {got.hex()}, upward {up.events[e0:]}")
                return r
            r.cls("host-reset-request-midstream")
            continue
        data, payload = encode(sym, idx)
        try:
            proto.data_received(data)
        except RuntimeError as e:
            if "upper layer failed" not in str(e):
                r.bad("C04:raises", f"{sym} at {idx}: {e!r}")
                return r
        except Exception as e:
            r.bad("C04:raises", f"{sym} at {idx}: {e!r}")
            return r
        wrote = [f for _, d in tr.writes[w0:] for f in refash.split_wire(d)]
        nwrites = len(tr.writes) - w0
        events = [(k, v) for _, k, v in up.events[e0:]]
        k = sym[0]
        if k == "D":
            accept = sym[1] == expected
            if accept:
                expected = (expected + 1) % 8
                acc += 1
                if expected == 0:
                    wraps += 1
                if events != [("data", payload)]:
                    r.bad("C04:accepted-not-delivered-once", f"step {idx} {sym}: upward {events}")
            else:
                ref += 1
                if sym[2]:
                    r.cls("retx-out-of-sequence")
                if events:
                    r.bad("C04:delivered-out-of-sequence" + (":retx" if sym[2] else ""),
                          f"step {idx} {sym} expected {expected}: upward {events}")
            if nwrites != 1 or len(wrote) != 1 or wrote[0].get("kind") not in ("ACK", "NAK"):
                r.bad("C04:not-exactly-one-ack-or-nak", f"step {idx} {sym}: wrote {wrote}")
            else:
                if wrote[0]["ack"] != expected:
                    r.bad("C04:ack-number-wrong", f"step {idx} {sym}: wrote {wrote[0]} expected {expected}")
                if accept and wrote[0]["kind"] != "ACK":
                    r.bad("C04:accepted-but-nak", f"step {idx} {sym}")
        elif k == "K":
            expected = 0
            r.cls("rstack-midstream")
            if events != [("reset", sym[1])]:
                r.bad("C04:rstack-not-reported-once", f"step {idx} {sym}: upward {events}")
            if nwrites:
                r.bad("C04:write-on-rstack", f"step {idx}: {wrote}")
        elif k == "E":
            if events != [("reset", sym[1])]:
                r.bad("C04:error-not-reported-once", f"step {idx} {sym}: upward {events}")
            if nwrites:
                r.bad("C04:write-on-error", f"step {idx}: {wrote}")
        else:
            if events:
                r.bad(f"C04:upward-on-{k}", f"step {idx} {sym}: {events}")
            if nwrites:
                r.bad(f"C04:write-on-{k}", f"step {idx} {sym}: {wrote}")
        if r.violations:
            return r
    r.nontrivial = acc > 0 and ref > 0
    if wraps:
        r.cls("wrap")
    if wraps > 3:
        r.cls("wrap>3")
    return r


def check_merged(plan) -> Result:
    """The same sequences with several frames arriving in ONE read: what is handed up and what is written back, in order,
    must be what frame-by-frame arrival gives (per DATA frame one ACK/NAK with the number after that frame)."""
    start, seq, cuts = plan["start"], [tuple(s_) for s_ in plan["seq"]], plan["cuts"]
    r = Result(key=["m", start, plan["seq"], cuts], classes=["several-frames-per-read"])
    proto, tr, up = make_host()
    expected = 0
    for i in range(start):
        data, _ = encode(("D", i, 0, 0), 9000 + i)
        proto.data_received(data)
        expected = (expected + 1) % 8
    groups, cur = [], []
    for k, sym in enumerate(seq):
        if sym[0] == "H":
            continue
        cur.append((k + 1, sym))
        if k in cuts or k == len(seq) - 1:
            groups.append(cur)
            cur = []
    if cur:
        groups.append(cur)
    multi = False
    for g in groups:
        want_ev, want_wr, blob = [], [], b""
        for idx, sym in g:
            data, payload = encode(sym, idx)
            blob += data
            if sym[0] == "D":
                if sym[1] == expected:
                    expected = (expected + 1) % 8
                    want_ev.append(("data", payload))
                    want_wr.append(("ACK", expected))
                else:
                    want_wr.append((("ACK" if sym[2] else "NAK"), expected))
            elif sym[0] == "K":
                expected = 0
                want_ev.append(("reset", sym[1]))
            elif sym[0] == "E":
                want_ev.append(("reset", sym[1]))
        multi = multi or len(g) > 1
        w0, e0 = len(tr.writes), len(up.events)
        try:
            proto.data_received(blob)
        except Exception as e:
            r.bad("C04:raises", f"chunk {g}: {e!r}")
            return r
        got_wr = [(f.get("kind"), f.get("ack")) for _, d in tr.writes[w0:] for f in refash.split_wire(d)]
        got_ev = [(k_, v) for _, k_, v in up.events[e0:]]
        if got_ev != want_ev:
            r.bad("C04:merged-read:upward-differs", f"frames {g} in one read: handed up {got_ev}, frame by frame {want_ev}; plan {plan}")
            return r
        if got_wr != want_wr:
            r.bad("C04:merged-read:not-one-ack-or-nak-per-data-frame", f"frames {g} in one read: wrote {got_wr}, expected {want_wr}; plan {plan}")
            return r
    r.nontrivial = multi
    return r


def check_inflight(plan) -> Result:
    """The receiver while the host's own sender is busy: one DATA frame of the host is in flight (written, not yet
    acknowledged) when the peer's frames arrive - several of them in ONE read, processed before the sending task runs again.
    What the receiver hands up and writes back is judged exactly as otherwise; nothing may escape data_received()."""
    import asyncio

    from vlib import vloop

    start, seq = plan["start"], [tuple(s_) for s_ in plan["seq"]]
    r = Result(key=["i", start, plan["seq"]], classes=["host-frame-in-flight"])

    async def scenario(loop):
        proto, tr, up = make_host(loop)
        expected = 0
        for i in range(start):
            data, _ = encode(("D", i, 0, 0), 9000 + i)
            proto.data_received(data)
            expected = (expected + 1) % 8
        tx = plan.get("tx", 0)  # the host's sender has already had tx frames acknowledged: its frame number tx is in flight
        for k in range(tx):
            prior = asyncio.ensure_future(proto.send_data(bytes([0x41, k, 0x05, 0x01])))
            for _ in range(5):
                await asyncio.sleep(0)
            proto.data_received(refash.wire(refash.enc_ack((k + 1) % 8)))
            await asyncio.wait([prior], timeout=1)
            if not prior.done() or prior.exception() is not None:
                r.bad("C04:harness:prior-send", f"{prior}")
                return
        send = asyncio.ensure_future(proto.send_data(b"\x42\x00\x05\x01"))
        for _ in range(5):
            await asyncio.sleep(0)
        mine = [f for _, d in tr.writes for f in refash.split_wire(d) if f.get("kind") == "DATA"]
        if len(mine) != tx + 1 or mine[-1]["frm"] != tx % 8:
            r.bad("C04:harness:no-frame-in-flight", f"{mine}")
            return
        want_ev, want_wr, blob = [], [], b""
        for idx, sym in enumerate(seq):
            data, payload = encode(sym, idx + 1)
            blob += data
            if sym[0] == "D":
                if sym[1] == expected:
                    expected = (expected + 1) % 8
                    want_ev.append(("data", payload))
                    want_wr.append(("ACK", expected))
                else:
                    want_wr.append((("ACK" if sym[2] else "NAK"), expected))
        w0, e0 = len(tr.writes), len(up.events)
        try:
            proto.data_received(blob)
        except Exception as e:
            r.bad("C04:raises", f"frames {seq} in one read while a host frame is in flight: {e!r}")
        got_wr = [(f.get("kind"), f.get("ack")) for _, d in tr.writes[w0:] for f in refash.split_wire(d)]
        got_ev = [(k_, v) for _, k_, v in up.events[e0:]]
        if not r.violations and got_ev != want_ev:
            r.bad("C04:inflight:upward-differs", f"frames {seq}: handed up {got_ev}, expected {want_ev}; plan {plan}")
        if not r.violations and got_wr != want_wr:
            r.bad("C04:inflight:not-one-ack-or-nak-per-data-frame", f"frames {seq}: wrote {got_wr}, expected {want_wr}; plan {plan}")
        send.cancel()
        await asyncio.sleep(0)

    try:
        vloop.run_case(scenario, horizon=100)
    except vloop.Hang:
        pass
    r.nontrivial = True
    return r


def replay(plan) -> Result:
    if plan.get("inflight"):
        return check_inflight(plan)
    return check_merged(plan) if "cuts" in plan else check(plan)


def _worker(ctx, job):
    start, L, firsts = job
    for first in firsts:
        for rest in itertools.product(range(len(SYMS)), repeat=L - 1):
            seq = [list(SYMS[first])] + [list(SYMS[i]) for i in rest]
            plan = {"start": start, "seq": seq}
            ctx.check(plan, check(plan), sample=(first == 5 and rest and rest[0] == 33))


@st.composite
def long_seq(draw):
    n = draw(st.integers(50, 400))
    start = draw(st.integers(0, 7))
    exp = start
    seq = []
    choice = draw(st.lists(st.tuples(st.integers(0, 99), st.integers(0, len(SYMS) - 1), st.integers(0, 3), st.integers(0, 255)), min_size=n, max_size=n))
    for p, j, v, code in choice:
        if p < 70:
            sym = ("D", exp, v & 1, 5 if v & 2 else 0)
        elif p < 80:  # duplicate of the previous frame / retransmitted future frame
            sym = ("D", (exp - 1 + (v & 2)) % 8, 1 if v & 1 else 0, 0)
        else:
            sym = SYMS[j]
            if sym[0] in ("K", "E") and v & 1:
                sym = (sym[0], code)  # any code byte is a well-formed frame, named or not, zero included
        if sym[0] == "D" and sym[1] == exp:
            exp = (exp + 1) % 8
        elif sym[0] == "K":
            exp = 0
        seq.append(list(sym))
    plan = {"start": start, "seq": seq}
    if draw(st.integers(0, 3)) == 0:
        plan["up_raise"] = draw(st.integers(1, 5))
    return plan


def run(ctx):
    quick = ctx.tier == "quick"
    L = 2 if quick else 3
    jobs = []
    for start in range(8):
        for part in range(2 if quick else 6):
            firsts = list(range(len(SYMS)))[part::(2 if quick else 6)]
            jobs.append((start, L, firsts))
    ctx.parallel(_worker, jobs)
    ctx.exhaustive[f"all sequences of length {L} from 8 start states"] = True
    ctx.extra["exhaustive_length"] = L
    if not quick:
        # sampled length-4
        strat = st.fixed_dictionaries({
            "start": st.integers(0, 7),
            "seq": st.lists(st.sampled_from([list(s) for s in SYMS]), min_size=4, max_size=6),
        })
        ctx.search(strat, check, max_examples=30000)

    ctx.parallel(_worker_codes, list(range(8)))
    ctx.exhaustive["all 256 RSTACK and ERROR codes, alone and followed by a DATA frame, one read or two"] = True
    ctx.parallel(_worker_inflight, list(range(8)))
    ctx.exhaustive["every ordered pair of ACK/NAK/DATA frames in one read while a host frame is in flight, from 8 start states"] = True
    ctx.parallel(_worker_pairs, list(range(8)))
    ctx.exhaustive["every ordered pair of frames arriving in one read, from 8 start states"] = True
    if quick:
        ctx.parallel(_worker_long, [250] * 8)
    else:
        ctx.parallel(_worker_long, [3200] * 16)


@st.composite
def merged_seq(draw):
    plan = draw(long_seq())
    plan.pop("up_raise", None)
    n = min(len(plan["seq"]), 60)
    plan["seq"] = plan["seq"][:n]
    plan["cuts"] = sorted(draw(st.sets(st.integers(0, n - 1), max_size=n // 2)))
    return plan


def _worker_long(c, n):
    c.search(long_seq(), check, max_examples=n)
    c.search(merged_seq(), check_merged, max_examples=n)


def _worker_codes(c, start):
    """every code byte in RSTACK and ERROR (zero and unnamed ones included): reported upward as is, exactly once"""
    for code in range(256):
        for kind in ("K", "E"):
            follow = ["D", 0 if kind == "K" else start, 0, 0]
            plan = {"start": start, "seq": [[kind, code], follow]}
            c.check(plan, check(plan), sample=(code == 0 and start == 1))
            if code % 8 == start:
                plan = {"start": start, "seq": [[kind, code], follow], "cuts": []}
                c.check(plan, check_merged(plan), sample=False)


def _worker_inflight(c, start):
    """every ordered pair (and single) over ACK / NAK / DATA symbols that refer to the host's in-flight frame 0"""
    for tx in range(8):
        cov, same = (tx + 1) % 8, tx  # ackNum that covers the in-flight frame / that repeats the previous acknowledgement
        syms = [("A", cov), ("A", same), ("N", same), ("N", cov), ("D", start, 0, cov), ("D", start, 0, same), ("D", (start + 1) % 8, 0, cov),
                ("D", (start + 1) % 8, 1, cov), ("D", start, 1, cov), ("D", (start + 7) % 8, 1, same)]
        for a_ in syms:
            plan = {"start": start, "seq": [list(a_)], "inflight": True, "tx": tx}
            c.check(plan, check_inflight(plan), sample=False)
            if tx not in (0, 7) and a_[0] != "D":
                continue  # all ordered pairs for the first and the last frame number; DATA-first pairs for the others
            for b_ in syms:
                plan = {"start": start, "seq": [list(a_), list(b_)], "inflight": True, "tx": tx}
                c.check(plan, check_inflight(plan), sample=(start == 2 and tx == 7 and a_ == ("A", cov) and b_[0] == "D" and b_[1] == 2 and b_[3] == cov))
                if tx == 0 and a_[0] == "A" and b_[0] == "D" and b_[1] == start:
                    for c_ in syms[4:7]:
                        plan = {"start": start, "seq": [list(a_), list(b_), list(c_)], "inflight": True, "tx": tx}
                        c.check(plan, check_inflight(plan), sample=False)


def _worker_pairs(c, start):
    """every ordered pair of symbols in one read"""
    if True:
        for a_ in range(len(SYMS)):
            for b_ in range(len(SYMS)):
                if SYMS[a_][0] == "H" or SYMS[b_][0] == "H":
                    continue
                plan = {"start": start, "seq": [list(SYMS[a_]), list(SYMS[b_])], "cuts": []}
                c.check(plan, check_merged(plan), sample=(a_ == 2 and b_ == 5 and start == 0))
