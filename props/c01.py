"""C01 — ASH link delivers payloads exactly once, in order, over a faulty serial line.

Host = real bellows AshProtocol; peer = vlib.refash.RefNcp (independent, conforming,
window K in 1..3); between them vlib.line.Line with per-frame fates.  Oracle = history
invariants over submissions, outcomes and upward deliveries on both sides."""
from __future__ import annotations

import asyncio
import itertools

from hypothesis import strategies as st

from vlib import cfg, refash, vloop
from vlib.ashh import FakeTransport, Upper
from vlib.line import Line
from vlib.run import HarnessError, Result

LEVEL = "fault_enumeration"
RULE = (
    "a plan = NCP window K in 1..3, host sends / NCP sends / cancellations of a host caller at generated instants, and a "
    "fate {deliver, drop, detectable corruption, duplicate, stall 3.5 s; towards the host also 'late duplicate': an ACK/NAK "
    "delivered again after 1..6 later frames} for the n-th frame of each direction (random plans) "
    "or for the first d frames in global emission order (exhaustive part: all 5^d assignments, d = 4 quick / 6 thorough, for "
    "a fixed 2+2 payload workload, for each K); a third plan family aims faults only at transmissions of a cancelled payload; a fourth aims a fate at each of the five "
    "transmissions of one live payload (all 5^5 assignments enumerated, plus generated mixtures with lost ACK/NAK frames). "
    "Non-trivial = a non-deliver fate landed on a DATA, ACK or NAK frame and at least one payload was delivered in each "
    "direction; distinct by plan."
)
ASSUMPTIONS = [
    "peer is vlib/refash.RefNcp, a conforming NCP written from UG101 (go-back-N, reject condition, 1.6 s fixed "
    "retransmit timeout, ERROR after 5 timeouts); RefNcp<->RefNcp self-test runs in the thorough tier",
    "corruption is always detectable (1..3 bit flips of the unstuffed frame)",
    "the line is FIFO; the only reordering is the late duplicate of a control frame towards the host, at most 6 frames late "
    "(less than the 8-frame numbering period, so a conforming receiver can still tell it is stale)",
]


def hpayload(i, n):
    return bytes([0x48, i, 0x7E, 0x7D]) + bytes((i * 31 + j * 7) & 0xFF for j in range(n))


def npayload(j, n):
    return bytes([0x4E, j, 0x11, 0x13]) + bytes((j * 29 + k * 5) & 0xFF for k in range(n))


class World:
    pass


async def scenario(loop, plan, w, host_factory=None):
    import bellows.ash as ash

    K = plan["K"]
    line = Line(loop, plan.get("fh"), plan.get("fn"), plan.get("fg"), plan.get("ft"))
    w.line = line
    line.merge_reads = bool(plan.get("merge"))
    w.h_up = Upper(loop)
    w.up_raised = 0
    if plan.get("up_raise"):
        # the host's upper layer raises while taking some deliveries (after having taken them): delivery is still delivery
        _dr = w.h_up.data_received
        cnt = {"n": 0}

        def _data_received(data):
            _dr(data)
            cnt["n"] += 1
            if cnt["n"] in plan["up_raise"]:
                w.up_raised += 1
                raise RuntimeError("upper layer failed while handling a frame")

        w.h_up.data_received = _data_received
    w.n_up = []  # payloads handed up on the NCP side
    w.h_sub, w.n_sub = [], []  # submission order (payload) at call time
    w.h_out, w.n_out = {}, {}  # payload -> "ok"/exception name/"cancelled"
    tr = FakeTransport(loop, sink=line.h2n.write)
    if host_factory is None:
        host = ash.AshProtocol(w.h_up)
        tr.protocol = host
        host.connection_made(tr)
        def feed_host(data):
            try:
                host.data_received(data)
            except RuntimeError as ex:
                if "upper layer failed" not in str(ex):
                    raise

        host_send = host.send_data
    else:
        host, feed_host, host_send = host_factory(loop, line.h2n.write, w.h_up)
    ncp = refash.RefNcp(loop, line.n2h.write, lambda p: w.n_up.append(bytes(p)), window=K)
    line.h2n.sink = ncp.feed
    line.n2h.sink = feed_host
    w.ncp = ncp
    tasks = {}
    all_tasks = []

    async def hsend(i, length):
        p = hpayload(i, length)
        w.h_sub.append(p)
        try:
            await host_send(p)
            w.h_out[p] = "ok"
        except asyncio.CancelledError:
            w.h_out[p] = "cancelled"
            raise
        except BaseException as e:
            w.h_out[p] = type(e).__name__

    async def nsend(j, length):
        p = npayload(j, length)
        w.n_sub.append(p)
        try:
            await ncp.send(p)
            w.n_out[p] = "ok"
        except BaseException as e:
            w.n_out[p] = type(e).__name__

    def start_h(i, length):
        t = asyncio.ensure_future(hsend(i, length))
        tasks[i] = t
        all_tasks.append(t)

    def start_n(j, length):
        all_tasks.append(asyncio.ensure_future(nsend(j, length)))

    def cancel(i):
        t = tasks.get(i)
        if t is not None and not t.done():
            t.cancel()
            w.cancelled.add(i)

    w.cancelled = set()
    hi = nj = 0
    last = 0.0
    for op in plan["ops"]:
        if op[0] == "h":
            loop.call_at(op[1], start_h, hi, op[2])
            hi += 1
        elif op[0] == "n":
            loop.call_at(op[1], start_n, nj, op[2])
            nj += 1
        elif op[0] == "c":
            loop.call_at(op[2], cancel, op[1])
        last = max(last, op[1] if op[0] != "c" else op[2])
    await asyncio.sleep(last + 0.001)
    if all_tasks:
        await asyncio.wait(all_tasks, timeout=plan.get("horizon", 600))
    w.pending = [t for t in all_tasks if not t.done()]
    await asyncio.sleep(40)  # let retransmissions in flight land
    w.h_delivered = [v for _, k, v in w.h_up.events if k == "data"]
    w.h_resets = [v for _, k, v in w.h_up.events if k == "reset"]


def subsequence_in_order(sub, delivered):
    """delivered is an in-order, duplicate-free subsequence of sub."""
    pos = -1
    index = {p: i for i, p in enumerate(sub)}
    seen = set()
    for p in delivered:
        if p not in index:
            return "unknown"
        if p in seen:
            return "duplicate"
        seen.add(p)
        if index[p] < pos:
            return "reordered"
        pos = index[p]
    return None


def check(plan, host_factory=None) -> Result:
    r = Result()
    w = World()
    try:
        vloop.run_case(lambda loop: scenario(loop, plan, w, host_factory), horizon=5000)
    except vloop.Hang:
        r.bad("C01:hang", f"{plan}")
        return r
    except vloop.Horizon:
        r.bad("C01:does-not-quiesce", f"{plan}")
        return r
    tag = "" if host_factory is None else ":REF"
    if w.pending:
        r.bad("C01:send-never-ends" + tag, f"{len(w.pending)} sends pending; plan {plan}")
        return r
    # (a) in-order duplicate-free subsequences
    bad = subsequence_in_order(w.h_sub, w.n_up)
    if bad:
        r.bad(f"C01:host-to-ncp:{bad}" + tag, f"submitted {[p[:2].hex() for p in w.h_sub]} delivered {[p[:2].hex() for p in w.n_up]}")
    bad = subsequence_in_order(w.n_sub, w.h_delivered)
    if bad:
        r.bad(f"C01:ncp-to-host:{bad}" + tag, f"submitted {[p[:2].hex() for p in w.n_sub]} delivered {[p[:2].hex() for p in w.h_delivered]}")
    # (b) successful sends were delivered
    for p, out in w.h_out.items():
        if out == "ok" and p not in w.n_up:
            r.bad("C01:host-send-ok-but-not-delivered" + tag, f"payload {p[:2].hex()}")
    for p, out in w.n_out.items():
        if out == "ok" and p not in w.h_delivered:
            r.bad("C01:ncp-send-acked-but-not-delivered-up" + tag, f"payload {p[:2].hex()}")
    # (e) progress where nothing excuses failure
    faults = [h for h in w.line.h2n.hits + w.line.n2h.hits]
    cancelled_payloads = {hpayload(i, 0)[:2] for i in w.cancelled}
    only_targeted = (bool(plan.get("ft")) and not plan.get("fh") and not plan.get("fn") and not plan.get("fg")
                     and not plan.get("budget"))
    if not faults or only_targeted:
        for p in w.h_sub:
            if p[:2] in cancelled_payloads:
                continue
            if w.h_out.get(p) != "ok" or p not in w.n_up:
                r.bad("C01:no-progress-without-excuse:host-send" + tag,
                      f"payload {p[:2].hex()} outcome {w.h_out.get(p)} delivered {p in w.n_up}; cancelled {sorted(w.cancelled)}; plan {plan}")
                break
        for p in w.n_sub:
            if w.n_out.get(p) != "ok" or p not in w.h_delivered:
                r.bad("C01:no-progress-without-excuse:ncp-send" + tag,
                      f"payload {p[:2].hex()} outcome {w.n_out.get(p)}; plan {plan}")
                break
        r.cls("progress-clause-applies")
    # classification
    hit_kinds = {k for _, k, fk in faults if fk in ("DATA", "ACK", "NAK")}
    r.nontrivial = bool(hit_kinds) and bool(w.n_up) and bool(w.h_delivered)
    for k in hit_kinds:
        r.cls("fate:" + k)
    r.cls(f"K{plan['K']}")
    if len(w.n_up) > 8 or len(w.h_delivered) > 8:
        r.cls("number-wrap")
    if w.cancelled:
        r.cls("cancel")
    if plan.get("merge"):
        r.cls("back-to-back-frames-in-one-read")
    if w.up_raised:
        r.cls("upper-layer-raised-on-delivery")
    if w.h_resets:
        r.cls("host-link-failed")
    if w.ncp.failed:
        r.cls("ncp-link-failed")
    if any(o not in ("ok", "cancelled") for o in w.h_out.values()):
        r.cls("host-send-reported-failure")
    return r


def replay(plan) -> Result:
    return check(plan)


# ---------------------------------------------------------------- reference self-test


def ref_host_factory(loop, write, upper):
    """A second RefNcp playing the host role (for RefNcp<->RefNcp self-test)."""
    peer = refash.RefNcp(loop, write, upper.data_received, window=1, auto_rstack=False)

    async def send(p):
        await peer.send(p)

    return peer, peer.feed, send


# --------------------------------------------------------------------- generators

FATES = [["d"], ["x"], ["c", 9], ["2"], ["s", 3.5]]
fate = st.one_of(
    st.just(["d"]), st.just(["d"]), st.just(["d"]), st.just(["x"]), st.just(["2"]),
    st.lists(st.integers(0, 400), min_size=1, max_size=3).map(lambda b: ["c"] + b),
    st.sampled_from([0.5, 1.7, 3.5, 7.0]).map(lambda s: ["s", s]),
)


@st.composite
def plans(draw):
    K = draw(st.integers(1, 3))
    nh = draw(st.integers(0, 30))
    nn = draw(st.integers(0, 30))
    ops = []
    t = 0.0
    gaps = [0.0, 0.0, 0.0005, 0.003, 0.05, 0.9, 2.1]
    seq = draw(st.lists(st.sampled_from("hn"), min_size=1, max_size=40))
    hi = 0
    for c in seq:
        t = round(t + draw(st.sampled_from(gaps)), 4)
        # payload length: mostly short; sometimes up to the 128-byte data field a conforming peer accepts (incl. our 4-byte tag)
        ops.append([c, t, draw(st.one_of(st.integers(0, 10), st.integers(0, 10), st.sampled_from([100, 120, 123, 124])))])
        if c == "h":
            if draw(st.integers(0, 5)) == 0:
                ops.append(["c", hi, round(t + draw(st.sampled_from([0.0, 0.001, 0.0041, 0.3, 1.6, 1.6041, 2.5])), 4)])
            hi += 1
    fh = draw(st.lists(fate, max_size=25))
    fn = draw(st.lists(st.one_of(fate, fate, fate, st.integers(1, 6).map(lambda k: ["L", k])), max_size=25))
    plan = {"K": K, "ops": ops, "fh": fh, "fn": fn}
    if draw(st.integers(0, 2)) == 0:
        plan["merge"] = 1
    if draw(st.integers(0, 3)) == 0:
        plan["up_raise"] = sorted(draw(st.sets(st.integers(1, 12), min_size=1, max_size=4)))
    return plan


@st.composite
def targeted_plans(draw):
    """Faults aimed only at transmissions of a cancelled payload; everything else must succeed."""
    K = draw(st.integers(1, 3))
    n = draw(st.integers(2, 10))
    ci = draw(st.integers(0, n - 2))
    ops = []
    t = 0.0
    for i in range(n):
        t = round(t + draw(st.sampled_from([0.0, 0.0, 0.001, 0.02, 0.5])), 4)
        ops.append(["h", t, draw(st.integers(0, 6))])
        if i == ci:
            ops.append(["c", i, round(t + draw(st.sampled_from([0.0, 0.0005, 0.001, 0.0041, 0.1, 1.0, 1.6, 1.601, 2.0])), 4)])
        if draw(st.integers(0, 2)) == 0:
            ops.append(["n", round(t + 0.0007, 4), draw(st.integers(0, 6))])
    A = cfg.ash_attempts()  # at most A - 1 of the payload's A transmissions are hit: the last one gets through
    fates = draw(st.lists(st.tuples(st.integers(1, A), st.sampled_from([["x"], ["c", 11], ["s", 3.5], ["2"]])), max_size=A - 1, unique_by=lambda x: x[0]))
    ft = [{"tag": hpayload(ci, 0)[:2].hex(), "fates": [{"k": k, "fate": f} for k, f in fates]}]
    return {"K": K, "ops": ops, "ft": ft}


@st.composite
def budget_plans(draw):
    """Faults aimed at the (up to five) transmissions of ONE live host payload - mixtures of loss, corruption (-> NAK),
    duplication and stalls across the whole retry budget - with independent faults on the return path (lost ACK/NAK)."""
    K = draw(st.integers(1, 3))
    n = draw(st.integers(1, 6))
    ti = draw(st.integers(0, n - 1))
    ops = []
    t = 0.0
    for i in range(n):
        t = round(t + draw(st.sampled_from([0.0, 0.001, 0.02, 0.5, 4.0])), 4)
        ops.append(["h", t, draw(st.integers(0, 6))])
        if draw(st.integers(0, 2)) == 0:
            ops.append(["n", round(t + 0.0007, 4), draw(st.integers(0, 6))])
    f5 = draw(st.lists(st.sampled_from([["x"], ["x"], ["c", 11], ["c", 3, 40], ["s", 3.5], ["s", 0.5], ["2"], ["d"]]), min_size=5, max_size=5))
    ft = [{"tag": hpayload(ti, 0)[:2].hex(), "fates": [{"k": k + 1, "fate": f} for k, f in enumerate(f5)]}]
    fn = draw(st.lists(st.sampled_from([["d"], ["d"], ["x"], ["c", 5], ["2"]]), max_size=8))
    return {"K": K, "ops": ops, "ft": ft, "fn": fn, "budget": 1}


def _worker_budget_exh(ctx, job):
    """All 5^5 fate assignments to the five transmissions of the first of two host payloads."""
    K, first = job
    # the peer also sends long after the host may have given up on its own frame (host side FAILED, peer healthy)
    ops = [["h", 0.0, 2], ["n", 0.0005, 1], ["h", 0.001, 3], ["n", 25.0, 2]]
    for rest in itertools.product(range(5), repeat=4):
        f5 = [FATES[first]] + [FATES[i] for i in rest]
        plan = {"K": K, "ops": ops, "budget": 1,
                "ft": [{"tag": hpayload(0, 0)[:2].hex(), "fates": [{"k": k + 1, "fate": f} for k, f in enumerate(f5)]}]}
        res = check(plan)
        res.cls("budget-exhaustive")
        ctx.check(plan, res, sample=(first == 1 and rest == (2, 1, 1)))


def _worker_latedup(ctx, job):
    """A duplicated ACK reaches the host k frames late while a later host frame is lost (first transmission)."""
    K, a = job
    for k in range(1, 5):
        for d in range(0, 6):
            for gap in (0.0, 0.01):
                ops = [["h", round(i * gap, 4), 2] for i in range(6)] + [["n", 0.0007, 1]]
                fn = [["d"]] * a + [["L", k]]
                fh = [["d"]] * d + [["x"]]
                plan = {"K": K, "ops": ops, "fh": fh, "fn": fn}
                res = check(plan)
                res.cls("late-duplicate-enumeration")
                ctx.check(plan, res, sample=(a == 1 and k == 1 and d == 2))


def _worker_merged(ctx, job):
    """Several peer frames in one read while a host frame is unacknowledged: the first of them carries the (piggy-backed)
    acknowledgement the host is waiting for, the next ones follow in the same chunk."""
    K, drop_ack = job
    for nn in (2, 3):
        for t_n in (0.0007, 0.3, 1.61):
            for nh in (1, 2):
                ops = [["h", round(i * 0.0002, 4), 2] for i in range(nh)] + [["n", t_n, 1 + j] for j in range(nn)]
                plan = {"K": K, "ops": ops, "merge": 1, "fn": [["x"]] * drop_ack}
                res = check(plan)
                res.cls("merged-reads-enumeration")
                ctx.check(plan, res, sample=(nn == 2 and drop_ack == 1 and nh == 1 and t_n == 0.3))


def _worker_budget(ctx, n):
    ctx.search(budget_plans(), check, max_examples=n)


def _worker_exh(ctx, job):
    K, d, firsts = job
    ops = [["h", 0.0, 2], ["n", 0.0005, 2], ["h", 0.001, 3], ["n", 0.3, 1]]
    for first in firsts:
        for rest in itertools.product(range(5), repeat=d - 1):
            fg = [FATES[first]] + [FATES[i] for i in rest]
            plan = {"K": K, "ops": ops, "fg": fg}
            ctx.check(plan, check(plan), sample=(first == 1 and rest[:2] == (2, 3)))


def _worker_random(ctx, n):
    ctx.search(plans(), check, max_examples=n)


def _worker_targeted(ctx, n):
    ctx.search(targeted_plans(), check, max_examples=n)


def _worker_selftest(ctx, n):
    """RefNcp <-> RefNcp under the same oracle: a failure here is a HARNESS error."""
    c2 = ctx.fork(99)
    c2.search(plans().map(lambda p: dict(p, ops=[o for o in p["ops"] if o[0] != "c"])),
              lambda p: check(p, ref_host_factory), max_examples=n, shrink=False)
    if c2.violations:
        raise HarnessError(f"reference self-test failed: {list(c2.violations.items())[:1]}")
    ctx.count(0, classes=["ref-selftest-ok"])
    ctx.extra["reference_selftest_plans"] = ctx.extra.get("reference_selftest_plans", 0) + c2.evaluations


def run(ctx):
    quick = ctx.tier == "quick"
    d = 4 if quick else 7
    jobs = [(K, d, [f]) for K in (1, 2, 3) for f in range(5)]
    ctx.parallel(_worker_exh, jobs)
    ctx.exhaustive[f"all 5^{d} fate assignments to the first {d} frames, K=1..3, fixed 2+2 workload"] = True
    ctx.extra["exhaustive_depth"] = d
    ctx.parallel(_worker_selftest, [60] * 4 if quick else [1500] * 8)
    ctx.parallel(_worker_random, [250] * 16 if quick else [12000] * 16)
    ctx.parallel(_worker_targeted, [80] * 16 if quick else [5000] * 16)
    ctx.parallel(_worker_budget_exh, [(K, f) for K in (1, 2, 3) for f in range(5)])
    ctx.exhaustive["all 5^5 fate assignments to the five transmissions of one host payload, K=1..3"] = True
    ctx.parallel(_worker_budget, [120] * 16 if quick else [8000] * 16)
    ctx.parallel(_worker_latedup, [(K, a) for K in (1, 2, 3) for a in range(0, 6)])
    ctx.parallel(_worker_merged, [(K, d) for K in (2, 3) for d in (0, 1, 2)])
