"""C08 — malformed or unexpected EZSP frames are contained.

A case = (version, optional pending command, one frame).  The frame is a valid response /
callback frame (built by the reference encoder) mutated by truncation, byte flips, frame-ID
or sequence substitution, or a random byte string.  Oracle: frame_received never raises; a
pending call ends only with values from a frame carrying its sequence AND its frame ID, with
InvalidCommandError from an invalidCommand frame carrying its sequence, or by timeout; the
callbacks fire exactly when the frame has a known ID, decodes under that schema and answers
no pending call; a fresh command afterwards completes."""
from __future__ import annotations

import asyncio
import os
import subprocess
import sys
import tempfile

from hypothesis import strategies as st

from vlib import cfg, refezsp, values, vloop
from vlib.run import ROOT, HarnessError, Result
from props.c07 import FakeGw, _same, all_pairs

LEVEL = "exploration"
RULE = (
    "per protocol version 4..14: frames derived from valid response/callback frames of generated commands by truncation "
    "at every length, byte flips, frame-ID substitution (known other / unknown), sequence substitution (pending / not "
    "pending), trailing junk, plus uniformly random strings of 0..64 bytes; each with and without a pending command, on a fresh "
    "handler or on one that has received frames before (the same frame once or twice, another mutated frame); plus "
    "an atheris campaign with the same oracle. Non-trivial = the frame differs from every valid frame for the pending call "
    "and is not empty; distinct by (version, pending command, frame bytes)."
)
ASSUMPTIONS = [
    "whether a payload 'decodes under the schema' is judged with bellows.types.deserialize_dict (codec correctness is "
    "C07's subject); header fields are located by the positions of vlib/refezsp layouts",
    "trailing bytes after a complete decode are tolerated (bellows logs them at debug level and still dispatches)",
]

HDR = {"legacy": 3, "legacy-ext": 5, "extended": 5}


def extract(v, data):
    lay = refezsp.layout(v)
    if len(data) < HDR[lay]:
        return None
    if lay == "legacy":
        return data[0], data[2], data[3:]
    if lay == "legacy-ext":
        return data[0], data[4], data[5:]
    return data[0], data[3] | data[4] << 8, data[5:]


def try_decode(schema, payload):
    import bellows.types as t

    try:
        if isinstance(schema, dict):
            vals, rest = t.deserialize_dict(payload, schema)
            return list(vals.values())
        vals, rest = schema.deserialize(payload)
        return vals
    except Exception:
        return None


async def scenario(loop, plan):
    import bellows.ezsp as e
    from bellows.exception import InvalidCommandError

    v = plan["v"]
    cls = e.EZSP._BY_VERSION[v]
    ezsp = e.EZSP({"path": "/dev/null"})
    gw = FakeGw()
    ezsp._gw = gw
    h = cls(ezsp.handle_callback, gw)
    ezsp._protocol = h
    ezsp._ezsp_version = v
    ezsp.start_ezsp()
    cbs = []
    ezsp.add_callback(lambda *a: cbs.append(a))
    out = {"raised": None, "cbs": cbs, "pending_outcome": None, "after": None}
    frame = bytes.fromhex(plan["frame"])
    for fb in plan.get("before") or []:
        # frames the same handler has received earlier (possibly the very same bytes): what the handler made of them must
        # not change what it makes of the frame under test
        try:
            ezsp.frame_received(bytes.fromhex(fb))
        except BaseException as ex:
            out["raised"] = "earlier frame: " + repr(ex)
        await asyncio.sleep(0.001)
    cbs.clear()
    task = None
    t0 = loop.time()
    pend = plan.get("pending")
    if pend:
        h._seq = pend["seq"]
        cid, tx, rx = cls.COMMANDS[pend["name"]]
        args = list(t_decode_args(tx, bytes.fromhex(pend["txb"])))
        task = asyncio.ensure_future(h.command(pend["name"], *args))
        await asyncio.sleep(0.001)
        if len(gw.sent) != 1:
            raise HarnessError(f"pending command was not sent: {plan}")
        if pend.get("switch_to") is not None:
            # the protocol handler is replaced (version negotiation / reset) while the command is still waiting: the new
            # handler knows nothing about it, whatever arrives afterwards
            ezsp._switch_protocol_version(pend["switch_to"])
            h = ezsp._protocol
            v = ezsp._protocol.VERSION
            cls = e.EZSP._BY_VERSION[v]
        if pend.get("state") == "timed-out":
            # the command is left unanswered until its caller has timed out; the frame under test arrives afterwards
            await asyncio.wait([task], timeout=15)
            await asyncio.sleep(0.5)
        elif pend.get("state") == "abandoned":
            await asyncio.sleep(0.2)
            task.cancel()
            await asyncio.wait([task], timeout=1)
    try:
        ezsp.frame_received(frame)
    except BaseException as ex:
        out["raised"] = repr(ex)
    await asyncio.sleep(0.001)
    if task is not None:
        if task.done():
            out["pending_outcome"] = _outcome(task, loop.time() - t0)
        else:
            await asyncio.wait([task], timeout=15)
            out["pending_outcome"] = _outcome(task, loop.time() - t0) if task.done() else ("hang", None, None)
            if not task.done():
                task.cancel()
    # a fresh command still works
    n0 = len(gw.sent)
    seq2 = h._seq
    nid = cls.COMMANDS["getNodeId"][0]
    gw.on_send = lambda d: loop.call_soon(ezsp.frame_received, refezsp.header(v, seq2, nid, 0x80) + b"\x34\x12")
    cbs_before = len(cbs)
    try:
        res = await asyncio.wait_for(ezsp.getNodeId(), 30)
        out["after"] = "ok" if (len(res) == 1 and int(res[0]) == 0x1234) else f"wrong:{res!r}"
    except BaseException as ex:
        out["after"] = repr(ex)
    out["cbs_after"] = len(cbs) - cbs_before
    return out


def t_decode_args(tx, txb):
    import bellows.types as t

    if not isinstance(tx, dict):
        return []
    return t.deserialize_dict(txb, tx)[0].values()


def _outcome(task, dt):
    if task.cancelled():
        return ("cancelled", None, dt)
    ex = task.exception()
    if ex is not None:
        return (type(ex).__name__, None, dt)
    return ("ok", task.result(), dt)


def check(plan) -> Result:
    import bellows.ezsp as e

    v = plan["v"]
    cls = e.EZSP._BY_VERSION[v]
    frame = bytes.fromhex(plan["frame"])
    pend = plan.get("pending")
    v0, cls0 = v, cls
    if pend and pend.get("switch_to") is not None:
        v = pend["switch_to"]
        cls = e.EZSP._BY_VERSION[v]
    r = Result(classes=[f"v{v}", "pending" if pend else "idle", "mut:" + plan.get("mut", "?")],
               key=hash((v, pend["name"] if pend else "", pend["seq"] if pend else -1, frame)))
    try:
        out = vloop.run_case(lambda loop: scenario(loop, plan), horizon=1e6)
    except vloop.Hang:
        r.bad("C08:hang", f"{plan}")
        return r
    if out["raised"]:
        r.bad("C08:receive-raises", f"{plan}: {out['raised']}")
    # reference expectation
    by_id = {cid: (n, rx) for n, (cid, tx, rx) in cls.COMMANDS.items()}
    ex = extract(v, frame) if frame else None
    decoded = None
    name = None
    if ex is not None and ex[1] in by_id:
        name, rx = by_id[ex[1]]
        decoded = try_decode(rx, ex[2])
        if decoded is not None and values.fits(rx, ex[2]) is False:
            # bellows' own deserializer says it decodes, the wire shape of the schema says the bytes cannot hold it:
            # not a full frame of this version, whatever the deserializer makes of it
            decoded = None
            r.cls("deserializer-accepts-short-payload")
    answers_pending = bool(pend) and ex is not None and ex[0] == pend["seq"] and pend.get("switch_to") is None
    if pend and pend.get("switch_to") is not None:
        r.cls("handler-switched-while-pending")
    if plan.get("before"):
        r.cls("earlier-frames-on-the-same-handler")
        if plan["frame"] in plan["before"]:
            r.cls("same-frame-received-before")
    expect_cb = decoded is not None and not answers_pending
    cbs = out["cbs"][:len(out["cbs"]) - out["cbs_after"]] if out["cbs_after"] else out["cbs"]
    if expect_cb:
        r.cls("valid-callback")
        if len(cbs) != 1 or cbs[0][0] != name or not _same(cbs[0][1], decoded):
            r.bad("C08:callback-not-delivered-once", f"{plan}: callbacks {cbs!r} expected one ({name}, {decoded!r})")
    elif cbs:
        r.bad("C08:callback-for-undecodable-or-answering-frame", f"{plan}: callbacks {cbs!r}")
    if out["cbs_after"]:
        r.bad("C08:stray-callback-after", f"{plan}")
    if pend:
        kind, val, dt = out["pending_outcome"]
        pid = cls0.COMMANDS[pend["name"]][0]
        if kind == "ok":
            if not (answers_pending and decoded is not None and ex[1] == pid and _same(val, decoded)):
                r.bad("C08:pending-completed-by-foreign-frame", f"{plan}: returned {val!r}; frame id 0x{ex[1] if ex else -1:X} decoded {decoded!r}")
            else:
                r.cls("pending-completed-legitimately")
        elif kind == "InvalidCommandError":
            if not (answers_pending and name == "invalidCommand" and decoded is not None):
                r.bad("C08:pending-invalid-command-without-frame", f"{plan}")
        elif kind == "TimeoutError":
            if dt < cfg.cmd_timeout() - 1e-6:
                r.bad("C08:pending-timeout-early", f"{plan}: after {dt}")
            if answers_pending and decoded is not None and ex[1] == pid and not pend.get("state"):
                r.bad("C08:valid-reply-ignored", f"{plan}")
        elif kind == "cancelled" and pend.get("state") == "abandoned":
            pass
        else:
            r.bad(f"C08:pending-ended-with:{kind}", f"{plan}")
        if pend.get("state"):
            r.cls("frame-after-caller-" + pend["state"])
    if out["after"] != "ok":
        r.bad("C08:fresh-command-fails-afterwards", f"{plan}: {out['after']}")
    valid_for_pending = bool(pend) and answers_pending and decoded is not None and ex[1] == cls0.COMMANDS[pend["name"]][0]
    r.nontrivial = bool(frame) and not valid_for_pending and plan.get("mut") != "none"
    if decoded is None and ex is not None and ex[1] in by_id:
        r.cls("known-id-undecodable")
    if ex is not None and ex[1] not in by_id:
        r.cls("unknown-id")
    if ex is None:
        r.cls("shorter-than-header")
    return r


def replay(plan) -> Result:
    return check(plan)


# --------------------------------------------------------------------- generators


@st.composite
def plans(draw, versions=None):
    import bellows.ezsp as e

    v = draw(st.sampled_from(versions or sorted(e.EZSP._BY_VERSION)))
    cls = e.EZSP._BY_VERSION[v]
    names = sorted(cls.COMMANDS)
    pend = None
    if draw(st.booleans()):
        # "version" has frame ID 0 and is the first command of every session: over-represented on purpose
        pname = draw(st.sampled_from(names + ["getNodeId", "sendUnicast", "nop", "getKey", "version", "version"] if "getKey" in names else names + ["version", "version", "nop"]))
        if pname == "invalidCommand":
            pname = "nop"
        cid, tx, rx = cls.COMMANDS[pname]
        txv, txb = draw(values.schema_strategy(tx)) if isinstance(tx, dict) else ([], b"")
        pend = {"name": pname, "seq": draw(st.sampled_from([0, 1, 127, 255, 200])), "txb": txb.hex()}
        st_ = draw(st.sampled_from([None, None, None, "timed-out", "abandoned"]))
        if st_:
            pend["state"] = st_
        elif draw(st.integers(0, 4)) == 0:
            others = [x for x in sorted(e.EZSP._BY_VERSION) if x != v]
            pend["switch_to"] = draw(st.sampled_from(others))
    if pend and pend.get("switch_to") is not None:
        # the frame is one of the NEW version; preferably one whose ID the pending command had in the old version
        v2 = pend["switch_to"]
        cls2 = e.EZSP._BY_VERSION[v2]
        pid = cls.COMMANDS[pend["name"]][0]
        same_id = [n for n, (cid, _, _) in cls2.COMMANDS.items() if cid == pid]
        bname = draw(st.sampled_from(same_id)) if same_id and draw(st.booleans()) else draw(st.sampled_from(sorted(cls2.COMMANDS)))
        cid, tx, rx = cls2.COMMANDS[bname]
        rxv, rxb = draw(values.schema_strategy(rx))
        seq = pend["seq"] if draw(st.integers(0, 3)) else draw(st.integers(0, 255))
        frame = refezsp.header(v2, seq, cid, draw(st.sampled_from([0x80, 0x90]))) + rxb
        return {"v": v, "pending": pend, "frame": bytes(frame).hex(), "mut": "after-switch"}
    # base frame
    src = draw(st.sampled_from(["same", "other", "other", "invalidCommand", "random"])) if pend else draw(st.sampled_from(["other", "other", "random"]))
    if src == "random":
        frame = draw(st.binary(max_size=64))
        if pend and frame and draw(st.booleans()):
            frame = bytes([pend["seq"]]) + frame[1:]
        return {"v": v, "pending": pend, "frame": frame.hex(), "mut": "random"}
    bname = pend["name"] if src == "same" else ("invalidCommand" if src == "invalidCommand" else draw(st.sampled_from(names)))
    cid, tx, rx = cls.COMMANDS[bname]
    rxv, rxb = draw(values.schema_strategy(rx))
    seq = pend["seq"] if pend and draw(st.integers(0, 3)) else draw(st.integers(0, 255))
    frame = bytearray(refezsp.header(v, seq, cid, draw(st.sampled_from([0x80, 0x90, 0x00, 0xFF, 0x82, 0x81]))) + rxb)
    mut = draw(st.sampled_from(["none", "truncate", "truncate", "flip", "flip", "id-known", "id-unknown", "seq", "junk", "header-only"]))
    if mut == "truncate" and frame:
        frame = frame[:draw(st.integers(0, len(frame) - 1))]
    elif mut == "flip" and frame:
        for _ in range(draw(st.integers(1, 3))):
            i = draw(st.integers(0, len(frame) - 1))
            frame[i] ^= 1 << draw(st.integers(0, 7))
    elif mut in ("id-known", "id-unknown"):
        ids = sorted(c for c, _, _ in cls.COMMANDS.values())
        if mut == "id-known":
            nid = draw(st.sampled_from(ids))
        else:
            nid = draw(st.integers(0, 0xFFFF if refezsp.layout(v) == "extended" else 0xFF).filter(lambda x: x not in ids))
        frame = bytearray(refezsp.header(v, seq, nid, 0x80) + rxb)
    elif mut == "seq":
        frame[0] = draw(st.integers(0, 255))
    elif mut == "junk":
        frame += draw(st.binary(min_size=1, max_size=8))
    elif mut == "header-only":
        frame = frame[:HDR[refezsp.layout(v)]]
    return {"v": v, "pending": pend, "frame": bytes(frame).hex(), "mut": mut}


@st.composite
def plans_with_history(draw):
    plan = draw(plans())
    if draw(st.integers(0, 2)) == 0 and not (plan.get("pending") or {}).get("switch_to"):
        fr = plan["frame"]
        other = draw(plans(versions=[plan["v"]]))["frame"]
        plan["before"] = draw(st.sampled_from([[fr], [fr, fr], [other], [other, fr], [fr, other], [fr] * 8, [other] * 9 + [fr]]))
    return plan


def _worker(ctx, n):
    ctx.search(plans_with_history(), check, max_examples=n)


def _worker_repeat(ctx, v):
    """The same frame twice on one handler, for unknown frame IDs and for known IDs with undecodable payloads."""
    import bellows.ezsp as e

    cls = e.EZSP._BY_VERSION[v]
    ids = sorted(c for c, _, _ in cls.COMMANDS.values())
    top = 0xFFFF if refezsp.layout(v) == "extended" else 0xFF
    unknown = [x for x in range(top + 1) if x not in ids]
    picks = unknown[:3] + unknown[-3:] + unknown[len(unknown) // 2:len(unknown) // 2 + 2]
    nid = cls.COMMANDS["getNodeId"][0]
    for fid in picks + [nid, cls.COMMANDS["incomingMessageHandler"][0]]:
        for payload in (b"", b"\x00", bytes(range(1, 9))):
            if fid == nid and len(payload) == 8:
                payload = b"\x34"  # one byte short of a node ID
            frame = (refezsp.header(v, 0x21, fid, 0x80) + payload).hex()
            for pend in (None, {"name": "getNodeId", "seq": 0x21, "txb": ""}, {"name": "nop", "seq": 0x22, "txb": ""}):
                for before in ([frame], [frame, frame], [frame] * 9):
                    plan = {"v": v, "pending": pend, "frame": frame, "before": before, "mut": "repeat"}
                    ctx.check(plan, check(plan), sample=(fid == picks[0] and pend is None and len(before) == 1 and payload == b""))


def _worker_trunc(ctx, job):
    """truncation at every length of one generated frame per (version, command), pending = that command"""
    import hypothesis
    from hypothesis import HealthCheck, Phase, given, settings
    import bellows.ezsp as e

    pairs = job
    for v, name in pairs:
        cid, tx, rx = e.EZSP._BY_VERSION[v].COMMANDS[name]
        if name == "invalidCommand":
            continue
        box = {}

        @hypothesis.seed(ctx.seed)
        @settings(max_examples=1, database=None, deadline=None, phases=[Phase.generate], suppress_health_check=list(HealthCheck))
        @given(values.schema_strategy(tx) if isinstance(tx, dict) else st.just(([], b"")), values.schema_strategy(rx))
        def draw(a, b):
            box["tx"], box["rx"] = a, b

        draw()
        txb, rxb = box["tx"][1], box["rx"][1]
        full = refezsp.header(v, 9, cid, 0x80) + rxb
        for k in range(len(full) + 1):
            plan = {"v": v, "pending": {"name": name, "seq": 9, "txb": txb.hex()}, "frame": full[:k].hex(),
                    "mut": "truncate-all" if k < len(full) else "none"}
            ctx.check(plan, check(plan), sample=(name == "getKey" and k == 7))


# ---------------------------------------------------------------- atheris


def run_atheris(ctx, runs, shards):
    target = os.path.join(ROOT, "fuzz", "ezsp_rx.py")
    work = tempfile.mkdtemp(prefix="verif_fuzz_c08_")
    procs = []
    try:
        for i in range(shards):
            d = os.path.join(work, f"s{i}")
            os.makedirs(os.path.join(d, "corpus"))
            cmd = [sys.executable, target, os.path.join(d, "corpus"), f"-runs={runs}", f"-seed={ctx.seed * 100 + i + 1}",
                   f"-artifact_prefix={d}/crash-", "-max_len=96", "-print_final_stats=1", "-verbosity=0"]
            env2 = dict(os.environ, FUZZ_STATS=os.path.join(d, "stats.json"))
            procs.append((d, subprocess.Popen(cmd, env=env2, stdout=subprocess.PIPE, stderr=subprocess.STDOUT, text=True)))
        import json
        total = 0
        for d, p in procs:
            out, _ = p.communicate()
            if os.path.exists(os.path.join(d, "stats.json")):
                stj = json.load(open(os.path.join(d, "stats.json")))
                ctx.count(stj["n"], nontrivial_keys=stj["nontrivial_keys"])
                for k, v in stj["classes"].items():
                    ctx.classes["fuzz:" + k] += v
                total += stj["n"]
            crashes = [f for f in os.listdir(d) if f.startswith("crash-")]
            if p.returncode != 0 and not crashes:
                if "No module named" in out and "atheris" in out:
                    ctx.notes.append("atheris unavailable: fuzz tier skipped")
                    return
                raise HarnessError("atheris target failed without artefact:\n" + out[-1500:])
            for c in crashes:
                from fuzz.ezsp_rx import decode_input
                plan = decode_input(open(os.path.join(d, c), "rb").read())
                res = check(plan)
                if res.violations:
                    ctx.check(plan, res)
                else:
                    raise HarnessError(f"fuzz crash does not reproduce: {out[-1500:]}")
        ctx.extra["atheris_executions"] = total
    finally:
        import shutil
        shutil.rmtree(work, ignore_errors=True)


def run(ctx):
    quick = ctx.tier == "quick"
    ctx.parallel(_worker, [400] * 16 if quick else [12000] * 16)
    import bellows.ezsp as e_

    ctx.parallel(_worker_repeat, sorted(e_.EZSP._BY_VERSION))
    pairs = all_pairs()
    if quick:
        # a rotating twelfth - plus, always, the commands whose response types have decoding rules of their own
        always = {"getKey", "getKeyTableEntry", "getTokenData", "invalidCommand", "version", "getValue", "incomingMessageHandler",
                  "messageSentHandler", "stackStatusHandler", "exportKey", "exportLinkKeyByIndex"}
        pairs = [p for i, p in enumerate(pairs) if i % 12 == ctx.seed % 12 or p[1] in always]
    nj = 64
    ctx.parallel(_worker_trunc, [pairs[i::nj] for i in range(nj) if pairs[i::nj]])
    run_atheris(ctx, 6000 if quick else 150000, 2 if quick else 16)
