"""C20 — cross-thread proxy runs calls on the owner's loop and relays results.

Real threads and real event loops (no virtual time here): an owner loop in its own thread
(bellows.thread.EventLoopThread, or a raw loop thread for the stopped-but-not-closed state),
caller loops in the main thread and in a second loop thread.  Generated call scripts are run
in bursts; every wrapped body records the thread it runs on."""
from __future__ import annotations

import asyncio
import itertools
import threading
import time
import warnings

from hypothesis import strategies as st

from vlib.run import HarnessError, Result

LEVEL = "exploration"
RULE = (
    "a script = either 1..6 slow coroutine calls (ending on cancellation at once / after clean-up by re-raising, raising, returning) in flight when the owner's thread is force-stopped, or owner-loop end state {running, stopped-not-closed, closed} + 1..4 bursts of 1..200 concurrent calls, each "
    "call = (where the proxy attribute was looked up {at call time, earlier on the main loop, earlier on the owner loop}, method kind in {coroutine returning a value, coroutine raising an Exception / a BaseException that is not an Exception / CancelledError, plain returning None, plain returning a value, "
    "plain raising, non-callable attribute}, caller in {owner loop, main-thread loop, second loop thread}, argument). "
    "Non-trivial = at least one call crossed threads; distinct by script. Oracles are timing-insensitive (thread identity, "
    "value/exception relay, exactly-once, per-caller FIFO); a 20 s wall guard per script yields 'inconclusive', never a violation."
)
ASSUMPTIONS = [
    "thread scheduling is not owned by the harness: the loop-closing-underneath-the-caller race is only sampled",
    "for the stopped-but-not-closed owner loop: nothing runs on a caller's thread, and plain calls made meanwhile are queued "
    "(the statement drops calls only for a CLOSED loop): they run exactly once, in per-caller order, once the loop runs again; "
    "coroutine calls made meanwhile are not judged (their futures are cancelled by the harness)",
]

KINDS = ["coro_value", "coro_raise", "coro_raise_base", "coro_cancelled", "plain_none", "plain_wrapped", "plain_value", "plain_raise",
         "plain_raise_rt", "attr"]


class Boom(Exception):
    pass


class Fatal(BaseException):
    """An exception that is not an `Exception` (like GeneratorExit / custom BaseException subclasses)."""


class Target:
    attr = 42

    def __init__(self):
        self.calls = []  # (kind, arg, thread id)
        self.finished = set()  # (kind, arg) of coroutine bodies that have ended
        self.lock = threading.Lock()

    def _rec(self, kind, arg):
        with self.lock:
            self.calls.append((kind, arg, threading.get_ident()))

    async def coro_value(self, arg, **kw):
        self._rec("coro_value", arg)
        try:
            await asyncio.sleep(0)
            return ("value", arg)
        finally:
            self.finished.add(("coro_value", arg))

    async def coro_raise(self, arg, **kw):
        self._rec("coro_raise", arg)
        self.finished.add(("coro_raise", arg))
        raise Boom(arg)

    async def coro_raise_base(self, arg, **kw):
        self._rec("coro_raise_base", arg)
        try:
            await asyncio.sleep(0)
        finally:
            self.finished.add(("coro_raise_base", arg))
        raise Fatal(arg)

    async def coro_cancelled(self, arg, **kw):
        self._rec("coro_cancelled", arg)
        self.finished.add(("coro_cancelled", arg))
        raise asyncio.CancelledError()

    def plain_none(self, arg, **kw):
        self._rec("plain_none", arg)

    async def _inner_async(self, arg, **kw):
        return None

    def plain_wrapped(self, arg, **kw):
        # a plain method produced by a decorator around a coroutine function (it carries __wrapped__): still a plain method
        self._rec("plain_wrapped", arg)

    def plain_raise_rt(self, arg, **kw):
        self._rec("plain_raise_rt", arg)
        raise RuntimeError(arg)

    def plain_value(self, arg, **kw):
        self._rec("plain_value", arg)
        return arg

    def plain_raise(self, arg, **kw):
        self._rec("plain_raise", arg)
        raise Boom(arg)


Target.plain_wrapped.__wrapped__ = Target._inner_async


class RawLoopThread:
    """Owner loop in a plain thread that is NOT closed when stopped."""

    def __init__(self):
        self.loop = asyncio.new_event_loop()
        self.ident = None
        self.started = threading.Event()
        self.thread = threading.Thread(target=self._main, daemon=True)

    def _main(self):
        self.ident = threading.get_ident()
        asyncio.set_event_loop(self.loop)
        self.loop.call_soon(self.started.set)
        self.loop.run_forever()

    def start(self):
        self.thread.start()
        self.started.wait(5)

    def stop(self):
        self.loop.call_soon_threadsafe(self.loop.stop)
        self.thread.join(5)

    def restart(self):
        """Run the same (stopped, not closed) loop again in a fresh thread."""
        self.started.clear()
        self.thread = threading.Thread(target=self._main, daemon=True)
        self.start()


async def drive_calls(proxy, calls, out, caller, await_results=True, pre=None, world=None):
    """Issue calls from the current loop; collect what the caller sees."""
    me = threading.get_ident()
    futs = []
    kinds = {c[0]: (c[1], c[2]) for c in calls}
    started_check = []
    for cid, kind, arg, lookup, *rest in calls:
        kwname = rest[0] if rest else None
        t0 = time.monotonic()
        try:
            if kind == "attr":
                try:
                    getattr(proxy, "attr")
                    out[cid] = ("attr-returned", None, me)
                except TypeError:
                    out[cid] = ("TypeError", None, me)
                continue
            fn = pre[lookup][kind] if (pre and lookup in pre) else getattr(proxy, kind)
            # some callers pass keyword arguments, with names the proxy's own plumbing might also use
            res = fn(arg, **{kwname: cid}) if kwname else fn(arg)
        except Exception as ex:
            out[cid] = ("call-raised", repr(ex), me)
            continue
        dt = time.monotonic() - t0
        if asyncio.isfuture(res) or asyncio.iscoroutine(res):
            futs.append((cid, res))
        else:
            out[cid] = ("returned", res, me, dt)
    if world is not None and futs and caller != "owner":
        # a coroutine call is carried out on the owner's loop when it is MADE, whether or not the caller awaits the handle
        # at once: after two round trips through the owner's loop every body has at least begun
        try:
            for _ in range(2):
                await asyncio.wait_for(asyncio.wrap_future(asyncio.run_coroutine_threadsafe(_ident(), world["owner_loop"])), 5)
            begun = {(k_, a_) for k_, a_, _ in world["target"].calls}
            for cid, f in futs:
                if kinds[cid] not in begun:
                    out[("not-started", cid)] = kinds[cid]
        except asyncio.TimeoutError:
            pass
    if not await_results:
        # owner loop stopped: such a future can never complete; do not wait for it
        await asyncio.sleep(0.05)
        for cid, f in futs:
            out[cid] = ("pending", None, me)
            if asyncio.isfuture(f):
                f.cancel()
        return
    for cid, f in futs:
        if asyncio.isfuture(f) and f.get_loop() is not asyncio.get_running_loop():
            # the caller was handed a future of somebody else's loop: it cannot be awaited here
            out[cid] = ("foreign-loop-future", None, me)
            continue
        f = asyncio.ensure_future(f)
        if world is not None:
            done, _ = await asyncio.wait([f], timeout=1.5)
            if not done and kinds[cid] in world["target"].finished:
                # The body has ended on the owner's loop.  Whatever relays its outcome was queued on the owner loop
                # before anything we submit now, and hands over to this loop with call_soon_threadsafe: after two round
                # trips through the owner loop and a few iterations here the future is done - or it never will be.
                try:
                    for _ in range(2):
                        await asyncio.wait_for(asyncio.wrap_future(asyncio.run_coroutine_threadsafe(_ident(), world["owner_loop"])), 5)
                    for _ in range(5):
                        await asyncio.sleep(0)
                    if not f.done():
                        out[cid] = ("never-delivered", None, me)
                        f.cancel()
                        continue
                except asyncio.TimeoutError:
                    pass
        try:
            val = await asyncio.wait_for(f, 15)
            out[cid] = ("result", val, threading.get_ident())
        except Boom as ex:
            out[cid] = ("Boom", ex.args[0], threading.get_ident())
        except Fatal as ex:
            out[cid] = ("Fatal", ex.args[0], threading.get_ident())
        except asyncio.TimeoutError:
            out[cid] = ("timeout", None, me)
        except asyncio.CancelledError:
            out[cid] = ("cancelled", None, me)
        except BaseException as ex:
            out[cid] = ("other-exc", repr(ex), me)


async def run_script(plan, r: Result):
    from bellows.thread import EventLoopThread, ThreadsafeProxy

    state = plan["state"]
    target = Target()
    errors = []
    main_ident = threading.get_ident()
    second = EventLoopThread()
    await second.start()
    second_ident = await second.run_coroutine_threadsafe(_ident())
    if state == "stopped":
        owner = RawLoopThread()
        owner.start()
        owner_loop, owner_ident = owner.loop, owner.ident
        run_on_owner = None
    else:
        owner = EventLoopThread()
        await owner.start()
        owner_loop = owner.loop
        owner_ident = await owner.run_coroutine_threadsafe(_ident())
    owner_loop.call_soon_threadsafe(owner_loop.set_exception_handler, lambda l, ctx: errors.append(ctx.get("exception")))
    proxy = ThreadsafeProxy(target, owner_loop)
    # wrappers looked up ahead of time on a loop that may differ from the one that later calls them
    pre = {"main": {k: getattr(proxy, k) for k in KINDS if k != "attr"}}
    if state != "stopped":
        async def fetch():
            return {k: getattr(proxy, k) for k in KINDS if k != "attr"}
        pre["owner"] = await owner.run_coroutine_threadsafe(fetch())
    try:
        if state == "closed":
            done = owner.thread_complete
            owner.force_stop()
            await asyncio.wait_for(done, 10)
            if not owner_loop.is_closed():
                raise HarnessError("owner loop did not close")
        elif state == "stopped":
            owner.stop()
            if owner_loop.is_running() or owner_loop.is_closed():
                raise HarnessError("owner loop not in stopped state")
        cid = 0
        crossed = 0
        for burst in plan["bursts"]:
            by_caller = {"main": [], "second": [], "owner": []}
            issued = []
            for call_ in burst:
                kind, caller, arg = call_[0], call_[1], call_[2]
                lookup = call_[3] if len(call_) > 3 else "call"
                if caller == "owner" and state != "running":
                    caller = "main"
                by_caller[caller].append((cid, kind, arg, lookup, call_[4] if len(call_) > 4 else None))
                if lookup != "call" and lookup != caller:
                    pass
                issued.append((cid, kind, caller, arg))
                cid += 1
            out = {}
            n0 = len(target.calls)
            e0 = len(errors)
            aw = state != "stopped"
            world = {"target": target, "owner_loop": owner_loop} if state == "running" else None
            jobs = [drive_calls(proxy, by_caller["main"], out, "main", aw, pre, world)]
            if by_caller["second"]:
                jobs.append(second.run_coroutine_threadsafe(drive_calls(proxy, by_caller["second"], out, "second", aw, pre, world)))
            if by_caller["owner"]:
                jobs.append(owner.run_coroutine_threadsafe(drive_calls(proxy, by_caller["owner"], out, "owner", True, pre)))
            await asyncio.gather(*jobs)
            if state == "running":
                await owner.run_coroutine_threadsafe(_ident())  # flush queued plain calls (FIFO)
                await owner.run_coroutine_threadsafe(_ident())
            executed = target.calls[n0:]
            new_errors = errors[e0:]
            # ---- oracle
            for kind, arg, tid in executed:
                if tid != owner_ident:
                    r.bad("C20:body-ran-on-foreign-thread", f"{kind}({arg}) ran on thread {tid}, owner is {owner_ident} (main {main_ident}, second {second_ident})")
                    return crossed
            execd = {}
            for kind, arg, tid in executed:
                execd[(kind, arg)] = execd.get((kind, arg), 0) + 1
            late_start = [k_ for k_ in out if isinstance(k_, tuple) and k_[0] == "not-started"]
            if late_start:
                r.bad("C20:coroutine-call-not-carried-out-until-awaited", f"{out[late_start[0]]}: made through the proxy from another loop, "
                      f"not begun on the owner's loop after two round trips through it (the caller had not awaited the handle yet)")
                return crossed
            for c, kind, caller, arg in issued:
                got = out.get(c)
                cross = caller != "owner"
                if cross:
                    crossed += 1
                if kind == "attr":
                    if got is None or got[0] != "TypeError":
                        r.bad("C20:non-callable-not-refused", f"{got}")
                        return crossed
                    continue
                if state == "closed":
                    if got is None or got[0] != "returned" or got[1] is not None:
                        r.bad("C20:closed-loop-call-not-dropped", f"{kind} from {caller}: {got}")
                        return crossed
                    if execd.get((kind, arg)):
                        r.bad("C20:closed-loop-body-executed", f"{kind}({arg})")
                        return crossed
                    if got[3] > 2.0:
                        r.bad("C20:closed-loop-call-blocked", f"{kind}: {got[3]:.2f}s")
                        return crossed
                    continue
                if state == "stopped":
                    continue  # only thread identity is asserted (above): nothing may run anywhere else
                if got is not None and got[0] == "foreign-loop-future":
                    r.bad("C20:result-delivered-on-wrong-loop", f"{kind}({arg}) from {caller}: the future handed to the caller belongs to another event loop")
                    return crossed
                if got is not None and got[0] == "never-delivered":
                    r.bad("C20:coroutine-outcome-never-delivered" + (":base-exception" if kind == "coro_raise_base" else ""),
                          f"{kind}({arg}) from {caller}: the body ended on the owner's loop, the caller's future never completed")
                    return crossed
                n = execd.get((kind, arg), 0)
                if n != 1:
                    r.bad("C20:not-executed-exactly-once", f"{kind}({arg}) from {caller}: executed {n} times")
                    return crossed
                if kind == "coro_value":
                    if got[0] != "result" or got[1] != ("value", arg):
                        r.bad("C20:coroutine-result-not-relayed", f"from {caller}: {got}")
                        return crossed
                    want_tid = {"main": main_ident, "second": second_ident, "owner": owner_ident}[caller]
                    if got[2] != want_tid:
                        r.bad("C20:result-delivered-on-wrong-loop", f"from {caller}: resumed on {got[2]}")
                        return crossed
                elif kind == "coro_raise":
                    if got[0] != "Boom" or got[1] != arg:
                        r.bad("C20:coroutine-exception-not-relayed", f"from {caller}: {got}")
                        return crossed
                elif kind == "coro_raise_base":
                    if got[0] != "Fatal" or got[1] != arg:
                        r.bad("C20:coroutine-exception-not-relayed:base-exception", f"from {caller}: {got}")
                        return crossed
                elif kind == "coro_cancelled":
                    if got[0] != "cancelled":
                        r.bad("C20:coroutine-exception-not-relayed:cancelled", f"from {caller}: {got}")
                        return crossed
                elif cross:
                    if got[0] != "returned" or got[1] is not None:
                        r.bad("C20:plain-call-returned-something", f"{kind} from {caller}: {got}")
                        return crossed
                else:  # owner-loop caller: direct call
                    if kind == "plain_value" and (got[0] != "returned" or got[1] != arg):
                        r.bad("C20:owner-call-not-direct", f"{kind}: {got}")
                        return crossed
                    if kind in ("plain_raise", "plain_raise_rt") and got[0] != "call-raised":
                        r.bad("C20:owner-call-not-direct", f"{kind}: {got}")
                        return crossed
            if state == "running":
                # queued plain calls: FIFO per caller thread
                for caller in ("main", "second"):
                    want = [(k, a) for c, k, cl, a in issued if cl == caller and k.startswith("plain")]
                    got_order = [(k, a) for k, a, _ in executed if (k, a) in set(want)]
                    if got_order != want:
                        r.bad("C20:queued-calls-not-fifo", f"{caller}: issued {want[:6]} executed {got_order[:6]}")
                        return crossed
                # plain_value across threads -> TypeError in the owner's handler; plain_raise -> Boom there
                n_val = sum(1 for c, k, cl, a in issued if k == "plain_value" and cl != "owner")
                n_rai = sum(1 for c, k, cl, a in issued if k == "plain_raise" and cl != "owner")
                n_rt = sum(1 for c, k, cl, a in issued if k == "plain_raise_rt" and cl != "owner")
                rt = sum(1 for ex in new_errors if type(ex) is RuntimeError)
                if rt != n_rt:
                    r.bad("C20:queued-exception-lost", f"{n_rt} calls raising RuntimeError, {rt} seen in owner handler")
                    return crossed
                te = sum(1 for ex in new_errors if isinstance(ex, TypeError))
                bo = sum(1 for ex in new_errors if isinstance(ex, Boom))
                if te != n_val:
                    r.bad("C20:non-none-return-not-reported", f"{n_val} queued value-returning calls, {te} TypeErrors in owner handler")
                    return crossed
                if bo != n_rai:
                    r.bad("C20:queued-exception-lost", f"{n_rai} raising calls, {bo} seen in owner handler")
                    return crossed
        if state == "stopped":
            # the owner loop was only stopped, not closed: plain calls made meanwhile were queued on it and must run -
            # exactly once, on the thread that runs the owner loop, in per-caller order - as soon as the loop runs again
            n0 = len(target.calls)
            owner.restart()
            flush = asyncio.run_coroutine_threadsafe(_ident(), owner_loop)
            new_ident = await asyncio.wait_for(asyncio.wrap_future(flush), 10)
            flush = asyncio.run_coroutine_threadsafe(_ident(), owner_loop)
            await asyncio.wait_for(asyncio.wrap_future(flush), 10)
            ran = [(k, a, tid) for k, a, tid in target.calls if k.startswith("plain")]
            for k, a, tid in ran:
                if tid != new_ident:
                    r.bad("C20:body-ran-on-foreign-thread", f"{k}({a}) ran on {tid}, the owner loop now runs on {new_ident}")
                    return crossed
            for caller in ("main", "second"):
                want = [(c[0], c[2]) for b in plan["bursts"] for c in b
                        if c[0].startswith("plain") and (c[1] if c[1] != "owner" else "main") == caller]
                got_order = [(k, a) for k, a, _ in ran if (k, a) in set(want)]
                if got_order != want:
                    r.bad("C20:queued-call-dropped-on-stopped-loop" if len(got_order) < len(want) else "C20:queued-calls-not-fifo",
                          f"{caller}: issued while the owner loop was stopped {want[:6]}, executed after it ran again {got_order[:6]}")
                    return crossed
            r.cls("stopped-loop-restarted")
            owner.stop()
        return crossed
    finally:
        second.force_stop()
        if state == "running":
            owner.force_stop()
        elif state == "stopped":
            with warnings.catch_warnings():
                warnings.simplefilter("ignore")
                try:
                    owner_loop.close()
                except Exception:
                    pass
        await asyncio.sleep(0)


async def _ident():
    return threading.get_ident()


class SlowTarget:
    """Coroutine methods that are still running when the owner's thread is stopped; on cancellation they need a few more
    loop iterations (clean-up) before they end by re-raising, raising something else, or returning."""

    def __init__(self):
        self.started = set()
        self.ended = set()

    async def _body(self, arg, how):
        self.started.add(arg)
        try:
            await asyncio.sleep(3600)
        except asyncio.CancelledError:
            if how != "plain":
                for _ in range(3):
                    await asyncio.sleep(0.002)  # clean-up that needs the loop to keep running
            if how == "raise":
                raise Boom(arg)
            if how == "return":
                return ("value", arg)
            raise
        finally:
            self.ended.add(arg)

    def block(self, began, release):
        # a plain method that keeps the owner's loop busy for a moment (everything queued behind it waits)
        began.set()
        release.wait(5)

    async def slow_plain(self, arg):
        return await self._body(arg, "plain")

    async def slow_clean(self, arg):
        return await self._body(arg, "clean")

    async def slow_raise(self, arg):
        return await self._body(arg, "raise")

    async def slow_return(self, arg):
        return await self._body(arg, "return")


async def run_rebind_script(plan, r: Result):
    """The proxy looks the attribute up on the wrapped object at every use: after the object's attribute has been replaced
    (another function, a coroutine function instead of a plain one, a non-callable) the next use goes to the new one."""
    from bellows.thread import EventLoopThread, ThreadsafeProxy

    class Obj:
        pass

    target = Obj()
    seen = []
    target.handler = lambda arg: seen.append(("v1", arg, threading.get_ident())) and None

    async def q1(arg):
        return ("q1", arg)

    async def q2(arg):
        return ("q2", arg)

    target.query = q1
    owner = EventLoopThread()
    await owner.start()
    owner_ident = await owner.run_coroutine_threadsafe(_ident())
    proxy = ThreadsafeProxy(target, owner.loop)
    try:
        order = plan["order"]
        proxy.handler(1)
        first = await asyncio.wait_for(proxy.query(1), 10)
        await owner.run_coroutine_threadsafe(_ident())
        for step in order:
            if step == "fn":
                target.handler = lambda arg: seen.append(("v2", arg, threading.get_ident())) and None
                proxy.handler(2)
                await owner.run_coroutine_threadsafe(_ident())
                await owner.run_coroutine_threadsafe(_ident())
                if ("v2", 2, owner_ident) not in seen:
                    r.bad("C20:stale-function-after-rebinding", f"after the wrapped object's method was replaced the proxy ran {seen[-1:]}")
                    return 0
            elif step == "coro":
                target.query = q2
                got = await asyncio.wait_for(proxy.query(2), 10)
                if got != ("q2", 2):
                    r.bad("C20:stale-function-after-rebinding", f"coroutine method replaced; the proxy returned {got!r}")
                    return 0
            elif step == "kind":
                async def now_async(arg):
                    return ("async", arg)

                target.handler = now_async
                res = proxy.handler(3)
                got = await asyncio.wait_for(res, 10) if asyncio.isfuture(res) or asyncio.iscoroutine(res) else res
                if got != ("async", 3):
                    r.bad("C20:coroutine-result-not-relayed", f"a method that became a coroutine function gave {got!r} through the proxy")
                    return 0
            elif step == "noncallable":
                for val in (5, None, "", 0, b"x", [], (), 3.5, False, {"a": 1}):
                    target.handler = val
                    try:
                        getattr(proxy, "handler")
                        r.bad("C20:non-callable-not-refused", f"attribute replaced by the non-callable value {val!r} is still handed out")
                        return 0
                    except TypeError:
                        pass
        if first != ("q1", 1) or ("v1", 1, owner_ident) not in seen:
            r.bad("C20:harness:rebind-baseline", f"{first} {seen[:1]}")
        return 1
    finally:
        owner.force_stop()
        await asyncio.sleep(0)


async def run_stop_script(plan, r: Result):
    """Calls in flight when the owner's thread is force-stopped: every caller must get an outcome (cancellation, the
    exception raised during clean-up, or the value) - none may be left waiting once the owner's loop is closed."""
    from bellows.thread import EventLoopThread, ThreadsafeProxy

    target = SlowTarget()
    second = EventLoopThread()
    await second.start()
    owner = EventLoopThread()
    await owner.start()
    owner_loop = owner.loop
    proxy = ThreadsafeProxy(target, owner_loop)
    done_evt = owner.thread_complete
    out = {}
    gate = {"stop": None}

    async def drive(calls):
        futs = []
        for cid, kind in calls:
            futs.append((cid, kind, asyncio.ensure_future(getattr(proxy, kind)(cid))))
        # wait until the owner has been stopped and its loop closed (signalled from the main loop)
        while gate["stop"] is None:
            await asyncio.sleep(0.005)
        for _ in range(20):
            await asyncio.sleep(0.005)
        for cid, kind, f in futs:
            if not f.done():
                out[cid] = ("pending", kind)
                f.cancel()
            elif f.cancelled():
                out[cid] = ("cancelled", kind)
            elif f.exception() is not None:
                out[cid] = (type(f.exception()).__name__, kind)
            else:
                out[cid] = ("result", kind, f.result())

    try:
        by = {"main": [], "second": []}
        for cid, (kind, caller) in enumerate(plan["calls"]):
            by[caller].append((cid, kind))
        jobs = [asyncio.ensure_future(drive(by["main"]))]
        if by["second"]:
            jobs.append(second.run_coroutine_threadsafe(drive(by["second"])))
        t0 = time.monotonic()
        while len(target.started) < len(plan["calls"]):
            if time.monotonic() - t0 > 8:
                raise asyncio.TimeoutError()
            await asyncio.sleep(0.005)
        early = plan.get("early") or []
        early_futs = []
        if early:
            # calls submitted just before the stop request, while the owner's loop is busy with something else: they are
            # queued on the owner's loop but have not begun when force_stop() is called.  They too must get an outcome.
            import threading

            began, release = threading.Event(), threading.Event()
            proxy.block(began, release)
            while not began.is_set():
                if time.monotonic() - t0 > 8:
                    release.set()
                    raise asyncio.TimeoutError()
                await asyncio.sleep(0.002)
            for i, kind in enumerate(early):
                early_futs.append((kind, getattr(proxy, kind)(1000 + i)))
            owner.force_stop()
            release.set()
        else:
            owner.force_stop()
        try:
            await asyncio.wait_for(asyncio.shield(done_evt), 10)
        except asyncio.TimeoutError:
            raise
        except BaseException:
            pass
        if not owner_loop.is_closed():
            raise asyncio.TimeoutError()
        gate["stop"] = True
        await asyncio.gather(*jobs)
        if early_futs:
            r.cls("calls-queued-behind-a-busy-owner-at-force-stop")
            for _ in range(20):
                await asyncio.sleep(0.005)
            for kind, f in early_futs:
                if not f.done():
                    r.bad("C20:caller-left-waiting-after-owner-stopped", f"{kind} submitted just before force_stop() while the owner's loop was busy: the owner's loop is closed and the caller's future never completed; plan {plan}")
                    f.cancel()
                    return 0
                if not f.cancelled() and f.exception() is not None and type(f.exception()).__name__ not in ("CancelledError", "Boom"):
                    r.bad("C20:unexpected-outcome-after-owner-stopped", f"{kind} (queued): {f.exception()!r}")
                    return 0
        for cid, (kind, caller) in enumerate(plan["calls"]):
            got = out.get(cid)
            if got is None or got[0] == "pending":
                r.bad("C20:caller-left-waiting-after-owner-stopped", f"{kind} from {caller}: the owner's loop is closed and the caller's future never completed; plan {plan}")
                return 0
            if got[0] not in ("cancelled", "CancelledError", "Boom", "result"):
                r.bad("C20:unexpected-outcome-after-owner-stopped", f"{kind} from {caller}: {got}")
                return 0
        return len(plan["calls"])
    finally:
        gate["stop"] = True
        second.force_stop()
        await asyncio.sleep(0)


async def run_dependent_script(plan, r: Result):
    """Coroutine calls in flight at the same time run concurrently on the owner's loop, as they would without the proxy:
    n callers wait for something that a later call provides.  Every caller must receive its result."""
    from bellows.thread import EventLoopThread, ThreadsafeProxy

    class Dep:
        def __init__(self):
            self.ev = None
            self.idents = []

        def _event(self):
            if self.ev is None:
                self.ev = asyncio.Event()
            return self.ev

        async def wait_ready(self, k):
            self.idents.append(threading.get_ident())
            await self._event().wait()
            return ("ready", k)

        async def announce(self, k):
            self.idents.append(threading.get_ident())
            await asyncio.sleep(0)
            self._event().set()
            return ("announced", k)

    owner = EventLoopThread()
    await owner.start()
    owner_ident = await owner.run_coroutine_threadsafe(_ident())
    target = Dep()
    proxy = ThreadsafeProxy(target, owner.loop)
    try:
        n = plan["waiters"]
        futs = [proxy.wait_ready(i) for i in range(n)] + [proxy.announce(99)]
        try:
            res = await asyncio.wait_for(asyncio.gather(*futs), 6)
        except asyncio.TimeoutError:
            r.bad("C20:caller-never-receives-result:calls-that-depend-on-each-other",
                  f"{n} coroutine calls waiting for what a later call provides: not all callers got a result within 6 s; plan {plan}")
            return 0
        if res != [("ready", i) for i in range(n)] + [("announced", 99)]:
            r.bad("C20:coroutine-result-not-relayed", f"dependent calls returned {res!r}")
            return 0
        if any(i != owner_ident for i in target.idents):
            r.bad("C20:body-ran-on-foreign-thread", f"{target.idents} owner {owner_ident}")
            return 0
        return n + 1
    finally:
        owner.force_stop()
        await asyncio.sleep(0)


async def _ident():
    return threading.get_ident()


def check(plan) -> Result:
    r = Result(classes=["state:" + plan["state"]])
    warnings.simplefilter("ignore")
    t0 = time.monotonic()

    async def main():
        if plan["state"] == "stop-inflight":
            return await asyncio.wait_for(run_stop_script(plan, r), 25)
        if plan["state"] == "dependent":
            return await asyncio.wait_for(run_dependent_script(plan, r), 25)
        if plan["state"] == "rebind":
            return await asyncio.wait_for(run_rebind_script(plan, r), 25)
        return await asyncio.wait_for(run_script(plan, r), 20)

    try:
        crossed = asyncio.run(main())
    except asyncio.TimeoutError:
        r.cls("inconclusive-wall-guard")
        r.note = "inconclusive"
        return r
    except Fatal as ex:
        # raised only inside Target.coro_raise_base; its one legitimate route is the caller's awaited future (caught in
        # drive_calls).  Surfacing anywhere else (it killed a loop thread, came out of a helper future) = not relayed.
        r.bad("C20:coroutine-exception-not-relayed:base-exception", f"Fatal({ex.args}) escaped instead of reaching its caller")
        return r
    r.nontrivial = bool(crossed)
    n = sum(len(b) for b in plan.get("bursts", []))
    if n >= 100:
        r.cls("burst>=100")
    return r


def replay(plan) -> Result:
    return check(plan)


call = st.tuples(st.sampled_from(KINDS + ["coro_value", "plain_none"]), st.sampled_from(["main", "main", "second", "owner"]), st.integers(0, 10**6),
                 st.sampled_from(["call", "call", "call", "main", "owner"]),
                 st.sampled_from([None, None, None, "name", "func", "call", "loop", "args", "timeout"])).map(list)


@st.composite
def plans(draw):
    state = draw(st.sampled_from(["running", "running", "running", "closed", "stopped"]))
    nb = draw(st.integers(1, 4))
    bursts = []
    k = 0
    for _ in range(nb):
        size = draw(st.sampled_from([1, 2, 3, 5, 10, 40, 200]))
        b = draw(st.lists(call, min_size=size, max_size=size))
        for c in b:
            c[2] = k  # unique argument = issue ordinal
            k += 1
        bursts.append(b)
    return {"state": state, "bursts": bursts}


stop_plans = st.fixed_dictionaries({
    "state": st.just("stop-inflight"),
    "calls": st.lists(st.tuples(st.sampled_from(["slow_plain", "slow_clean", "slow_raise", "slow_return"]), st.sampled_from(["main", "main", "second"])).map(list),
                      min_size=1, max_size=6),
    "early": st.lists(st.sampled_from(["slow_plain", "slow_clean", "slow_raise", "slow_return"]), max_size=3),
})


def _worker(ctx, n):
    for order in itertools.permutations(["fn", "coro", "kind", "noncallable"]):
        if order[-1] != "noncallable" and order.index("noncallable") < order.index("kind") or order.index("noncallable") < order.index("fn"):
            continue  # once the attribute is a non-callable the plain-method steps need it rebound first: keep it last-ish
        plan = {"state": "rebind", "order": list(order)}
        ctx.check(plan, check(plan))
    for waiters in (1, 2, 5):
        plan = {"state": "dependent", "waiters": waiters}
        ctx.check(plan, check(plan))
    for early in (["slow_clean"], ["slow_plain", "slow_raise", "slow_return"]):
        for calls in ([["slow_clean", "main"]], [["slow_return", "second"], ["slow_plain", "main"]]):
            plan = {"state": "stop-inflight", "calls": calls, "early": early}
            ctx.check(plan, check(plan))
    ctx.search(stop_plans, check, max_examples=max(n // 4, 6), shrink=False)
    ctx.search(plans(), check, max_examples=n, shrink=False)
    if ctx.classes.get("inconclusive-wall-guard", 0) > n // 2:
        raise HarnessError("more than half of the scripts hit the wall-clock guard: inconclusive")


def run(ctx):
    quick = ctx.tier == "quick"
    ctx.parallel(_worker, [70] * 16 if quick else [2500] * 16)
