"""C09 — bring-up negotiates the NCP's protocol version and frames everything accordingly.

The whole stack (EZSP.connect(use_thread=False) -> Gateway -> AshProtocol) runs in virtual
time over vlib.line against vlib.stack.WireNcp, a framing-aware NCP of version V that
ignores wrongly framed requests.  Oracle = wire observations + API outcomes."""
from __future__ import annotations

import asyncio

from hypothesis import strategies as st

from vlib import cfg, refash, refezsp, vloop
from vlib.stack import Stack, make_config
from vlib.run import Result

LEVEL = "fault_enumeration"
RULE = (
    "a case = NCP version V in {4..14, 15, 16, 31, 255} x device path {serial, socket://} x spontaneous start-up RSTACK "
    "{absent, seen within the 1 s window, late} x second reset performed through {EZSP.reset()+version(), "
    "stop_ezsp()+startup_reset()} x {bring-up only, ordinary traffic after each bring-up, a request between reset() and "
    "the repeated negotiation} x line faults. Enumerated: every V x path x second-reset mode fault-free, and every "
    "single fault (drop / corrupt / duplicate) on each of the first N frames of a bring-up for every V; plus Hypothesis "
    "multi-fault plans. Non-trivial = V != 4 or a fault hit a frame; distinct by plan."
)
ASSUMPTIONS = [
    "the NCP answers the legacy version query in the legacy layout with its own version and afterwards ignores every "
    "frame that is not in its own layout (UG100 behaviour as understood; no firmware available offline)",
    "versions above 14 speak the v14 wire format",
    "with line faults, bring-up may legitimately end in TimeoutError / an ASH link exception / EzspError; only a wrong "
    "version, a wrongly framed request, another exception type or a hang is a violation",
    "a 'late' spontaneous RSTACK (NCP reboots after the host already reset it) is generated but judged for safety only",
]

VERSIONS = list(range(4, 15)) + [15, 16, 31, 255]
ALLOWED_EXC = ("TimeoutError", "NcpFailure", "NotAcked", "EzspError", "ConnectionResetError", "AshException")


def version_id(v):
    return 0x00


async def scenario(loop, plan, r, out):
    import bellows.ezsp as e

    V = plan["v"]
    stack = Stack(loop, V, window=plan.get("K", 1), fh=plan.get("fh"), fn=plan.get("fn"), fg=plan.get("fg")).install()
    out["stack"] = stack
    stack.line.merge_reads = bool(plan.get("merge"))
    if plan.get("drop_rstack") is not None:
        # the NCP's k-th RSTACK (0 = the one of the first handshake) never reaches the host
        cnt = {"n": -1}
        orig_n2h = stack.line.n2h.write

        def rstack_eater(data):
            if any(f.get("kind") == "RSTACK" for f in refash.split_wire(data)):
                cnt["n"] += 1
                if cnt["n"] == plan["drop_rstack"]:
                    stack.line.n2h.hits.append((stack.line.n2h.n, "x", "RSTACK"))
                    return
            orig_n2h(data)

        stack.line.n2h.write = rstack_eater
    if plan.get("rstack_delay"):
        # a slow NCP: every RSTACK leaves it late, but inside the host's reset timeout
        # (it boots for a while after every RST; an RST that arrives while it boots restarts the boot)
        orig_n2h_d = stack.line.n2h.write
        orig_h2n_d = stack.line.h2n.write
        booting = {"h": None}

        def slow_rstack(data):
            if any(f.get("kind") == "RSTACK" for f in refash.split_wire(data)):
                if booting["h"] is not None:
                    booting["h"].cancel()
                booting["h"] = loop.call_later(plan["rstack_delay"], orig_n2h_d, data)
            else:
                orig_n2h_d(data)

        def host_write_d(data):
            if booting["h"] is not None and any(f.get("kind") == "RST" for f in refash.split_wire(data)):
                booting["h"].cancel()
                booting["h"] = None
            orig_h2n_d(data)

        stack.line.n2h.write = slow_rstack
        stack.line.h2n.write = host_write_d
    if plan.get("lose"):
        idx, k = plan["lose"]
        st_ = {"n": -1, "target": None, "left": k}
        orig_write = stack.line.h2n.write

        def lossy_write(data):
            for f in refash.split_wire(data):
                if f.get("kind") == "DATA":
                    if not f["retx"]:
                        st_["n"] += 1
                        if st_["n"] == idx:
                            st_["target"] = f["payload"]
                    if st_["target"] is not None and f["payload"] == st_["target"] and st_["left"] > 0:
                        st_["left"] -= 1
                        out["lost"] = out.get("lost", 0) + 1
                        return
            orig_write(data)

        stack.line.h2n.write = lossy_write
    if plan.get("announce") is not None:
        # an adapter that reboots when the port is opened announces that reboot (RSTACK with a power-on / external code)
        # just before it answers the host's RST; no application is attached yet, so it is nobody's business
        from vlib import refash as _ra

        _out = stack.ash._out
        soft = _ra.enc_rstack(_ra.RESET_SOFTWARE)
        left = {"n": 1}

        def out_(raw, cancel=False):
            if raw == soft and left["n"] > 0:
                left["n"] -= 1
                _out(_ra.enc_rstack(plan["announce"]), cancel=True)
            _out(raw, cancel=cancel)

        stack.ash._out = out_
    try:
        path = "socket://127.0.0.1:9999" if plan["path"] == "socket" else "/dev/ttyUSB0"
        ezsp = e.EZSP(make_config(path))
        out["ezsp"] = ezsp
        await ezsp.connect(use_thread=False)
        sp = plan.get("spont", "absent")
        W = cfg.startup_reset_wait()  # "seen" = inside the tree's waiting window, "late" = after it
        if sp == "seen":
            loop.call_later(0.3 * W, stack.spontaneous_rstack)
        elif sp == "late":
            loop.call_later(1.3 * W, stack.spontaneous_rstack)
        steps = []
        out["steps"] = steps

        async def attempt(name, factory):
            t0 = loop.time()
            try:
                await asyncio.wait_for(factory(), 400)
                steps.append((name, "ok", t0, loop.time(), len(stack.host_writes), len(stack.ncp.requests)))
                return True
            except asyncio.CancelledError:
                raise
            except BaseException as ex:
                steps.append((name, type(ex).__name__, t0, loop.time(), len(stack.host_writes), len(stack.ncp.requests), repr(ex)))
                return False

        async def step(name, factory):
            """Run a bring-up step; when it fails (possible under line faults) the caller of a real
            application retries on the same connection: do that once and remember whether any
            fault hit the line during the retry."""
            if await attempt(name, factory):
                return True
            if not plan.get("retry", True):
                return False
            if name in ("reset", "startup_reset2") and plan.get("after_failed", True):
                # what another task (a watchdog) does while the application has not yet reacted to the failed reset: it
                # issues a command.  It may be refused, or time out - it must not reach the NCP framed for the old version.
                n_req = len(stack.ncp.requests)
                try:
                    await asyncio.wait_for(ezsp.nop(), 0.5)
                except asyncio.CancelledError:
                    raise
                except BaseException:
                    pass
                out.setdefault("after_failed_reset", []).extend(q for q in stack.ncp.requests[n_req:] if q[1] is None)
            await asyncio.sleep(12)  # let retransmissions and late frames drain
            if name.startswith("startup_reset") or name == "reset":
                ezsp.stop_ezsp()
            h0 = len(stack.line.h2n.hits) + len(stack.line.n2h.hits)
            ok = await attempt(name + ":retry", factory)
            out.setdefault("retry_faults", {})[name + ":retry"] = len(stack.line.h2n.hits) + len(stack.line.n2h.hits) - h0
            return ok

        if not await step("startup_reset", lambda: ezsp.startup_reset()):
            return
        out["version_after_startup"] = (ezsp.ezsp_version, type(ezsp._protocol).VERSION)
        if not await step("write_config", lambda: ezsp.write_config({})):
            return

        async def use():
            # ordinary traffic after bring-up: a plain command and a handler-level helper, both through the EZSP object
            await ezsp.getEui64()
            await ezsp.read_counters()
            await ezsp.nop()

        if plan.get("use"):
            if not await step("use", use):
                return
        bg_tasks = []
        if plan.get("prefail"):
            # the NCP stops answering for a while: the host uses up its retry budget and declares the link failed by
            # itself (no ERROR frame is involved).  The later reset is exactly how an application recovers from that, so
            # everything after it must work as after any other reset.  The deliberate silence is not a line fault.
            hh, hn = len(stack.line.h2n.hits), len(stack.line.n2h.hits)
            stack.line.dead = True
            try:
                await asyncio.wait_for(ezsp.nop(), 60)
                out["prefail_outcome"] = "ok"
            except asyncio.CancelledError:
                raise
            except BaseException as ex:
                out["prefail_outcome"] = type(ex).__name__
            await asyncio.sleep(10)
            stack.line.dead = False
            del stack.line.h2n.hits[hh:]
            del stack.line.n2h.hits[hn:]
        if plan["second"] == "reset":
            if not await step("reset", lambda: ezsp.reset()):
                return
            out["version_after_reset"] = (ezsp.ezsp_version, type(ezsp._protocol).VERSION)
            if plan.get("probe"):
                # a request made after the reset and before the negotiation is repeated must be framed the legacy way
                t_a, w_a = loop.time(), len(stack.host_writes)
                try:
                    await asyncio.wait_for(ezsp.read_counters(), 0.05)
                except BaseException:
                    pass
                await asyncio.sleep(0.05)
                out["probe_window"] = (t_a, loop.time())
                out["probe_frames"] = [f["payload"] for tm, f, raw in stack.host_frames(w_a) if f.get("kind") == "DATA" and not f.get("retx")]
            if not await step("version", lambda: ezsp.version()):
                return
        else:
            ezsp.stop_ezsp()
            if plan.get("bg"):
                # other tasks (a watchdog, a sender) issue commands while EZSP is stopped for the reset: they are refused at
                # once - they must not linger and go out later in a framing that is no longer valid
                t_bg = loop.time()
                for _ in range(3):
                    bg_tasks.append(asyncio.ensure_future(ezsp.nop()))
                await asyncio.sleep(0)
                await asyncio.sleep(0)
                out["bg_refused_at_once"] = all(t_.done() and not t_.cancelled() and t_.exception() is not None for t_ in bg_tasks)
            if sp2 := plan.get("spont2"):
                loop.call_later((0.3 if sp2 == "seen" else 1.3) * W, stack.spontaneous_rstack)
            if not await step("startup_reset2", lambda: ezsp.startup_reset()):
                return
        for t_ in bg_tasks:
            if not t_.done():
                t_.cancel()
        out["version_after_second"] = (ezsp.ezsp_version, type(ezsp._protocol).VERSION)
        if not await step("write_config2", lambda: ezsp.write_config({})):
            return
        if plan.get("use"):
            await step("use2", use)
    finally:
        stack.uninstall()


def check(plan) -> Result:
    r = Result()
    out = {}
    V = plan["v"]
    try:
        vloop.run_case(lambda loop: scenario(loop, plan, r, out), horizon=1e6)
    except vloop.Hang:
        r.bad("C09:hang", f"{plan}")
        return r
    stack = out["stack"]
    steps = out.get("steps", [])
    faults = stack.line.h2n.hits + stack.line.n2h.hits
    late = plan.get("spont") == "late" or plan.get("spont2") == "late"
    clean = not faults and not late
    import bellows.ezsp as _e

    supported = sorted(_e.EZSP._BY_VERSION)  # "its own command tables for supported versions, the newest known tables for newer ones"
    tv = V if V in supported else supported[-1]
    vtag = f"V{V}" if V <= 14 else "V>14"
    # --- API outcomes
    for s in steps:
        if s[0].endswith(":retry"):
            r.cls("retry-after-failure")
            if s[1] != "ok" and out.get("retry_faults", {}).get(s[0], 1) == 0 and not late and s[0].split(":")[0].rstrip("2") in ("startup_reset", "reset"):
                r.bad(f"C09:retry-on-clean-line-fails:{s[0].split(':')[0].rstrip('2')}:{s[1]}",
                      f"{s[-1]}; steps {[x[:2] for x in steps]}; plan {plan}")
            continue
        if s[1] != "ok":
            if s[1] not in ALLOWED_EXC:
                r.bad(f"C09:{s[0].rstrip('2')}-raises:{s[1]}:{vtag}", f"{s[-1]}; plan {plan}")
            elif clean:
                r.bad(f"C09:{s[0].rstrip('2')}-fails-on-clean-line:{s[1]}:{plan['path']}:{plan['second']}" + (":spont2" if plan.get("spont2") else ""),
                      f"{s[-1]}; steps {[x[:2] for x in steps]}; plan {plan}")
    for key in ("version_after_startup", "version_after_second"):
        if key in out and out[key] != (V, tv):
            r.bad(f"C09:wrong-version:{vtag}", f"{key}: ezsp_version/table {out[key]}, NCP is {V}; plan {plan}")
    if "version_after_reset" in out and out["version_after_reset"][1] != 4:
        r.bad("C09:no-legacy-fallback-after-reset", f"after reset() the active handler is v{out['version_after_reset'][1]}; plan {plan}")
    if out.get("after_failed_reset") is not None:
        r.cls("command-issued-after-a-failed-reset")
        if out["after_failed_reset"] and not late:
            q = out["after_failed_reset"][0]
            r.bad("C09:wrongly-framed-request:after-failed-reset", f"NCP v{V} could not parse {q[3].hex()} at t={q[0]:.4f}, sent after a reset attempt that failed; plan {plan}")
    if stack.rx_raised:
        r.bad("C09:receive-callback-raises", f"{stack.rx_raised[0]}; plan {plan}")
    if plan.get("merge"):
        r.cls("frames-back-to-back-in-one-read")
    if plan.get("rstack_delay"):
        r.cls("slow-rstack-inside-the-reset-timeout")
    if plan.get("lose"):
        r.cls(f"one-host-frame-lost-{out.get('lost', 0)}-times-in-a-row")
        if out.get("lost", 0) != plan["lose"][1]:
            r.bad("C09:harness:frame-not-lost-as-planned", f"{out.get('lost')}; plan {plan}")
    # --- wire: first host write
    hw = stack.host_writes
    spont_seen_first = plan["path"] == "socket" and plan.get("spont") == "seen"
    if hw and not spont_seen_first and hw[0][1] != bytes.fromhex("1ac038bc7e"):
        r.bad("C09:first-write-not-rst", f"{hw[0][1].hex()}; plan {plan}")
    # --- wire: what the NCP's EZSP layer saw
    reqs = stack.ncp.requests
    pw = out.get("probe_window")
    if pw:
        r.cls("legacy-window-probe")
        for p in out.get("probe_frames", []):
            if not (len(p) == 3 and p[1] & 0x80 == 0 and p[2] == 0xF1):
                r.bad("C09:request-after-reset-not-legacy-framed", f"readCounters issued between reset() and version() went out as {p.hex()}; plan {plan}")
        if not out.get("probe_frames"):
            r.bad("C09:harness:probe-wrote-nothing", f"plan {plan}")
    if not late:
        bad = [q for q in reqs if q[1] is None and not (pw and pw[0] - 1e-9 <= q[0] < pw[1] - 1e-9)]
        if bad:
            kind = "startup_reset:socket" if plan["second"] == "startup" and plan["path"] == "socket" and plan.get("spont2") else "generic"
            r.bad(f"C09:wrongly-framed-request:{kind}", f"NCP v{V} could not parse {bad[0][3].hex()} at t={bad[0][0]:.4f}; plan {plan}")
    # first DATA after each host-side reset is a legacy version query; then (V != 4) version in V's layout
    frames = stack.host_frames()
    expect_legacy = True
    seen_first = False
    need_second = False
    for tm, f, raw in frames:
        if f.get("kind") == "RST":
            expect_legacy, need_second = True, False
            continue
        if f.get("kind") != "DATA" or f.get("retx"):
            continue
        if pw and pw[0] - 1e-9 <= tm < pw[1] - 1e-9:
            continue  # the legacy-window probe is judged above
        p = f["payload"]
        if expect_legacy:
            if not (len(p) == 4 and p[1] == 0x00 and p[2] == 0x00):
                if not (spont_seen_first or plan.get("spont2") or late):
                    r.bad("C09:first-frame-after-reset-not-legacy-version", f"{p.hex()} at {tm}; plan {plan}")
                break
            expect_legacy = False
            need_second = (V != 4)
            continue
        if need_second:
            q = refezsp.parse(tv, p)
            if not (q is not None and q[2] == 0 and q[3] == bytes([V & 0xFF])) and not late:
                r.bad(f"C09:second-version-query-missing:{vtag}", f"after the legacy query came {p.hex()}; plan {plan}")
                break
            need_second = False
    r.nontrivial = V != 4 or bool(faults)
    r.cls(vtag, "path:" + plan["path"], "second:" + plan["second"], "spont:" + plan.get("spont", "absent"))
    if plan.get("announce") is not None:
        r.cls("reboot-announced-before-handshake")
    if "prefail_outcome" in out:
        r.cls("host-gave-up-on-a-silent-ncp-before-the-second-reset")
        if out["prefail_outcome"] == "ok":
            r.bad("C09:harness:command-succeeded-on-dead-line", f"plan {plan}")
    if plan.get("bg") and "bg_refused_at_once" in out:
        r.cls("commands-issued-while-stopped")
        if not out["bg_refused_at_once"]:
            r.bad("C09:command-not-refused-while-stopped", f"a command issued while EZSP was stopped for the reset did not raise at once; plan {plan}")
    if faults:
        r.cls("faults")
        for _, k, fk in faults:
            r.cls(f"fault:{k}:{fk}")
    if steps and all(s[1] == "ok" for s in steps) and len(steps) >= 4:
        r.cls("full-success")
    if any(s[1] != "ok" for s in steps):
        r.cls("ended-in-" + [s[1] for s in steps if s[1] != "ok"][0])
    return r


def replay(plan) -> Result:
    return check(plan)


fate = st.one_of(st.just(["d"]), st.just(["d"]), st.just(["d"]), st.just(["d"]), st.just(["x"]), st.just(["2"]),
                 st.integers(0, 200).map(lambda b: ["c", b]))


@st.composite
def plans(draw):
    path = draw(st.sampled_from(["serial", "socket"]))
    plan = {"v": draw(st.sampled_from(VERSIONS)), "path": path, "second": draw(st.sampled_from(["reset", "startup"])),
            "K": draw(st.integers(1, 3))}
    if path == "socket":
        plan["spont"] = draw(st.sampled_from(["absent", "seen", "late"]))
        if plan["second"] == "startup" and draw(st.integers(0, 3)) == 0:
            plan["spont2"] = draw(st.sampled_from(["seen", "late"]))
    if draw(st.booleans()):
        plan["fh"] = draw(st.lists(fate, max_size=30))
        plan["fn"] = draw(st.lists(fate, max_size=30))
        plan["merge"] = draw(st.booleans())
    else:
        plan["use"] = draw(st.booleans())
        plan["bg"] = draw(st.integers(0, 3)) == 0
        if draw(st.integers(0, 3)) == 0:
            plan["prefail"] = True
        if path == "serial" and draw(st.integers(0, 3)) == 0:
            plan["announce"] = draw(st.sampled_from([0x00, 0x01, 0x02, 0x03, 0x06, 0x09]))
        if plan["second"] == "reset":
            plan["probe"] = draw(st.booleans())
    return plan


def _worker(ctx, n):
    ctx.search(plans(), check, max_examples=n)


def _worker_enum(ctx, job):
    for plan in job:
        ctx.check(plan, check(plan), sample=(plan["v"] == 8 and plan["path"] == "socket" and "fg" in plan))


def enum_plans(quick):
    out = []
    for v in VERSIONS:
        for path in ("serial", "socket"):
            for second in ("reset", "startup"):
                sps = ["absent"] if path == "serial" else ["absent", "seen"]
                for sp in sps:
                    p = {"v": v, "path": path, "second": second}
                    if path == "socket":
                        p["spont"] = sp
                    out.append(p)
                    out.append(dict(p, use=True))
                    out.append(dict(p, prefail=True))
                    if second == "startup":
                        out.append(dict(p, bg=True))
                    if path == "serial":
                        out.append(dict(p, announce=0x02))
                        out.append(dict(p, announce=0x01, use=True))
                    if second == "reset":
                        out.append(dict(p, use=True, probe=True))
                        out.append(dict(p, probe=True))
    # the same host frame lost k times in a row (k <= 4: the fifth transmission gets through) - the link's retry budget
    # covers it, so bring-up must succeed; nothing else is wrong with the line
    # the RSTACK answering the second reset is lost: the step fails (excused), a command issued right afterwards must not go
    # out framed for the version negotiated before, and the retry on the then clean line must succeed
    for v in ([4, 8, 14] if quick else VERSIONS):
        for path in ("serial", "socket"):
            for second in ("reset", "startup"):
                p = {"v": v, "path": path, "second": second, "drop_rstack": 1}
                if path == "socket":
                    p["spont"] = "absent"
                out.append(p)
                out.append(dict(p, use=True))
    for v in ([4, 8, 14] if quick else VERSIONS):
        for frac in (0.3, 0.7, 0.98):
            for second in ("reset", "startup"):
                out.append({"v": v, "path": "serial", "second": second, "rstack_delay": round(frac * cfg.reset_timeout(), 3)})
    for v in ([4, 8, 13] if quick else VERSIONS):
        for tag_i in range(3):
            A = cfg.ash_attempts()  # "the configured number of attempts": the last one gets through
            for k in ((2, A - 1) if quick else tuple(range(1, A))):
                out.append({"v": v, "path": "serial", "second": "reset", "lose": [tag_i, k]})
    depth = 10 if quick else 70
    vs = [4, 7, 8, 13, 14, 15] if quick else VERSIONS
    for v in vs:
        for k in range(depth):
            for f in (["x"], ["c", 9], ["2"]):
                out.append({"v": v, "path": "serial", "second": "reset", "fg": [["d"]] * k + [f]})
                if f == ["2"]:
                    # the duplicate arrives in the same read as the original
                    out.append({"v": v, "path": "serial", "second": "reset", "fg": [["d"]] * k + [f], "merge": True})
                    if k < 4:
                        out.append({"v": v, "path": "socket", "second": "startup", "spont": "absent", "fg": [["d"]] * k + [f], "merge": True})
    return out


def run(ctx):
    quick = ctx.tier == "quick"
    ps = enum_plans(quick)
    ctx.parallel(_worker_enum, [ps[i::48] for i in range(48)])
    ctx.exhaustive["every V x path x second-reset mode fault-free; single fault on each of the first N frames"] = True
    ctx.parallel(_worker, [250] * 16 if quick else [6000] * 16)
