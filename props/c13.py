"""C13 — incoming NCP callbacks are translated faithfully for every protocol version.

Callback frames are encoded byte by byte with the hand-written field tables of
vlib.refezsp (pre-v14 and v14 orders) and pushed through EZSP.frame_received into a real
ControllerApplication whose packet_received / handle_join / handle_leave are recorded."""
from __future__ import annotations

import asyncio

from hypothesis import strategies as st

from vlib import refezsp, simncp, vloop, zshim
from vlib.run import Result

LEVEL = "exploration"
RULE = (
    "per protocol version 4..14 and NCP versions newer than 14 (15, 16; thorough also 31, 255 - served with the v14 "
    "tables): incomingMessageHandler with every message type 0..6 and undefined ones, generated APS "
    "frame fields, sender, LQI, RSSI in {-128, -1, 0, 127, any}, payload length 0..100, binding/address indexes, (v14) "
    "EUI64 and timestamp; trustCenterJoinHandler with every device-update x decision combination (defined and undefined), "
    "generated addresses incl. the Xiaomi/Lumi IEEE prefixes; zigpy's device table empty or holding the sender's EUI64 under "
    "another (stale) short address, another device on the sender's short address, both, or the exact device; plus sequences of 2-5 such callbacks into one "
    "application with the own address changing in between, back-to-back arrival, and the NCP answering the manufacturer-code "
    "command at once / slowly / never. Non-trivial = message type is deliverable with non-empty "
    "payload, or any join callback; distinct by (version, frame bytes)."
)
ASSUMPTIONS = [
    "callback byte layouts are hand-written in vlib/refezsp.py from UG100 / EZSP v14 notes (cross-checked against C07's pins)",
    "ControllerApplication is constructed with the zigpy.util.Requests shim; zigpy's packet_received/handle_join/handle_leave "
    "are replaced by recorders on the instance (the zigpy side is not under test)",
    "a departure is reported as a leave whatever the decision field carries ('nothing for denied joins' is read as applying to joins)",
]

OWN_NWK = 0x0000


class CbSim(simncp.SimNcp):
    def cmd_findKeyTableEntry(self, address, linkKey):
        return {"index": 0xFF}

    def cmd_setManufacturerCode(self, code):
        return {}


async def scenario(loop, plan, out):
    import bellows.ezsp as e
    import zigpy.types as zt

    v = plan["v"]
    sim = CbSim(loop, v)
    ezsp = e.EZSP({"path": "/dev/null"})
    sim.attach(ezsp)
    ezsp._switch_protocol_version(v)
    ezsp.start_ezsp()
    app = zshim.make_app()
    app._ezsp = ezsp
    app.state.node_info.nwk = zt.NWK(plan.get("own", OWN_NWK))
    for ieee_hex, nwk in plan.get("known") or []:
        # devices zigpy already knows (e.g. one whose stored short address is stale, or another one on the sender's address)
        app.add_device(zt.EUI64.deserialize(bytes.fromhex(ieee_hex))[0], zt.NWK(nwk))
    packets, joins, leaves = [], [], []
    app.packet_received = lambda p: packets.append(p)
    app.handle_join = lambda nwk, ieee, parent, *a, **k: joins.append((int(nwk), bytes(ieee.serialize()), int(parent)))
    app.handle_leave = lambda nwk, ieee, *a, **k: leaves.append((int(nwk), bytes(ieee.serialize())))
    ezsp.add_callback(app.ezsp_callback_handler)
    frame = bytes.fromhex(plan["frame"])
    try:
        ezsp.frame_received(frame)
        out["raised"] = None
    except Exception as ex:
        out["raised"] = repr(ex)
    await asyncio.sleep(0.01)
    out.update(packets=packets, joins=joins, leaves=leaves)


def build(plan):
    v = plan["v"]
    if plan["t"] == "msg":
        aps = refezsp.aps_frame(plan["profile"], plan["cluster"], plan["src_ep"], plan["dst_ep"], plan["options"], plan["group"], plan["aps_seq"])
        return refezsp.enc_incoming_message(v, plan["seq"], mtype=plan["mtype"], aps=aps, lqi=plan["lqi"], rssi=plan["rssi"],
                                            sender=plan["sender"], binding_index=plan["bidx"], address_index=plan["aidx"],
                                            message=bytes.fromhex(plan["data"]), eui64=bytes.fromhex(plan["eui64"]), timestamp=plan["ts"])
    return refezsp.enc_tc_join(v, plan["seq"], nwk=plan["nwk"], eui64=bytes.fromhex(plan["eui64"]), status=plan["status"],
                               decision=plan["decision"], parent=plan["parent"])


def _i(x):
    """int() of a packet field, or the raw value when it is not a number (a missing field is a difference, not a crash)."""
    try:
        return int(x)
    except (TypeError, ValueError):
        return x


def check(plan) -> Result:
    import zigpy.types as zt

    plan = dict(plan)
    plan["frame"] = build(plan).hex()
    r = Result(key=hash((plan["v"], plan["frame"])))
    out = {}
    try:
        vloop.run_case(lambda loop: scenario(loop, plan, out), horizon=1e6)
    except vloop.Hang:
        r.bad("C13:hang", f"{plan}")
        return r
    vt = "v14" if plan["v"] == 14 else "newer-than-v14" if plan["v"] > 14 else "pre-v14"
    if plan.get("known"):
        r.cls("known-devices")
    if out["raised"]:
        r.bad("C13:receive-raises", f"{out['raised']}; plan {plan}")
        return r
    pk, joins, leaves = out["packets"], out["joins"], out["leaves"]
    if plan["t"] == "msg":
        mt = plan["mtype"]
        deliver = mt in (refezsp.INCOMING_UNICAST, refezsp.INCOMING_MULTICAST, refezsp.INCOMING_BROADCAST)
        r.cls(f"mtype:{mt if mt <= 6 else 'undefined'}")
        if joins or leaves:
            r.bad("C13:message-produced-join-or-leave", f"{plan}")
        if not deliver:
            if pk:
                r.bad(f"C13:packet-for-other-message-type:{mt if mt <= 6 else 'undefined'}", f"{pk}; plan {plan}")
            return r
        r.nontrivial = bool(plan["data"])
        if len(pk) != 1:
            r.bad(f"C13:not-exactly-one-packet:{vt}", f"{len(pk)} packets; plan {plan}")
            return r
        p = pk[0]
        data = bytes.fromhex(plan["data"])
        got = dict(src_mode=p.src.addr_mode, src=_i(p.src.address), src_ep=_i(p.src_ep), dst_ep=_i(p.dst_ep), tsn=_i(p.tsn),
                   profile=_i(p.profile_id), cluster=_i(p.cluster_id), data=bytes(p.data.serialize()), lqi=_i(p.lqi), rssi=_i(p.rssi))
        want = dict(src_mode=zt.AddrMode.NWK, src=plan["sender"], src_ep=plan["src_ep"], dst_ep=plan["dst_ep"], tsn=plan["aps_seq"],
                    profile=plan["profile"], cluster=plan["cluster"], data=data, lqi=plan["lqi"], rssi=plan["rssi"])
        for k in want:
            if got[k] != want[k]:
                r.bad(f"C13:packet-field-differs:{k}:{vt}", f"{k}: packet has {got[k]!r}, callback carried {want[k]!r}; plan {plan}")
        if mt == refezsp.INCOMING_UNICAST:
            if p.dst.addr_mode != zt.AddrMode.NWK or int(p.dst.address) != plan.get("own", OWN_NWK):
                r.bad("C13:unicast-destination-not-own-address", f"{p.dst}; plan {plan}")
        elif mt == refezsp.INCOMING_MULTICAST:
            if p.dst.addr_mode != zt.AddrMode.Group or int(p.dst.address) != plan["group"]:
                r.bad("C13:multicast-destination-not-group", f"{p.dst}; plan {plan}")
        else:
            if p.dst.addr_mode != zt.AddrMode.Broadcast:
                r.bad("C13:broadcast-destination-not-broadcast", f"{p.dst}; plan {plan}")
        return r
    # trust-centre join
    r.nontrivial = True
    r.cls(f"update:{plan['status'] if plan['status'] <= 7 else 'undefined'}", f"decision:{plan['decision'] if plan['decision'] <= 3 else 'undefined'}")
    if pk:
        r.bad("C13:join-produced-packet", f"{plan}")
    ieee = bytes.fromhex(plan["eui64"])
    left = plan["status"] == refezsp.DEVICE_LEFT
    deny = plan["decision"] == refezsp.DENY_JOIN
    if left:
        # a departure is not a join: it yields a leave whatever the decision field says
        if deny:
            r.cls("departure-with-deny-decision")
        if joins or leaves != [(plan["nwk"], ieee)]:
            r.bad(f"C13:departure-not-a-leave:{vt}", f"joins {joins} leaves {leaves}; plan {plan}")
    elif deny:
        if joins or leaves:
            r.bad("C13:denied-join-reported", f"joins {joins} leaves {leaves}; plan {plan}")
    else:
        if leaves or joins != [(plan["nwk"], ieee, plan["parent"])]:
            r.bad(f"C13:join-not-reported-faithfully:{vt}", f"joins {joins} leaves {leaves}; plan {plan}")
    return r


def expect(item, own):
    """What one callback must produce: (packets as field dicts, joins, leaves)."""
    import zigpy.types as zt

    if item["t"] == "msg":
        mt = item["mtype"]
        if mt not in (refezsp.INCOMING_UNICAST, refezsp.INCOMING_MULTICAST, refezsp.INCOMING_BROADCAST):
            return [], [], []
        if mt == refezsp.INCOMING_UNICAST:
            dst = (zt.AddrMode.NWK, own)
        elif mt == refezsp.INCOMING_MULTICAST:
            dst = (zt.AddrMode.Group, item["group"])
        else:
            dst = (zt.AddrMode.Broadcast, None)
        return [dict(src=item["sender"], src_ep=item["src_ep"], dst_ep=item["dst_ep"], tsn=item["aps_seq"], profile=item["profile"],
                     cluster=item["cluster"], data=bytes.fromhex(item["data"]), lqi=item["lqi"], rssi=item["rssi"], dst=dst)], [], []
    ieee = bytes.fromhex(item["eui64"])
    if item["status"] == refezsp.DEVICE_LEFT:
        return [], [], [(item["nwk"], ieee)]
    if item["decision"] == refezsp.DENY_JOIN:
        return [], [], []
    return [], [(item["nwk"], ieee, item["parent"])], []


async def scenario_seq(loop, plan, out):
    """Several callbacks into ONE application: what a callback yields must not depend on the callbacks before it,
    on the own address having changed in between, or on how quickly the NCP answers the manufacturer-code commands."""
    import dataclasses

    import bellows.ezsp as e
    import zigpy.types as zt

    v = plan["v"]
    sim = CbSim(loop, v)
    if plan.get("mfg") == "silent":
        sim.script["setManufacturerCode"] = lambda s_, args: None
    elif plan.get("mfg") == "slow":
        sim.delay = 0.3
    ezsp = e.EZSP({"path": "/dev/null"})
    sim.attach(ezsp)
    ezsp._switch_protocol_version(v)
    ezsp.start_ezsp()
    app = zshim.make_app()
    app._ezsp = ezsp
    own = plan["items"][0].get("own", OWN_NWK)
    app.state.node_info.nwk = zt.NWK(own)
    packets, joins, leaves = [], [], []
    app.packet_received = lambda p: packets.append(p)
    app.handle_join = lambda nwk, ieee, parent, *a, **k: joins.append((int(nwk), bytes(ieee.serialize()), int(parent)))
    app.handle_leave = lambda nwk, ieee, *a, **k: leaves.append((int(nwk), bytes(ieee.serialize())))
    ezsp.add_callback(app.ezsp_callback_handler)
    want = ([], [], [])
    out["raised"] = None
    for item in plan["items"]:
        if item.get("own", own) != own:
            own = item["own"]
            # the network settings were re-read (restore / re-form): zigpy replaces the node information
            app.state.node_info = dataclasses.replace(app.state.node_info, nwk=zt.NWK(own))
        w = expect(item, own)
        for a, b in zip(want, w):
            a.extend(b)
        try:
            # a conforming NCP tags a callback with the sequence number of the last response it sent (never that of a
            # command still waiting for its response)
            ezsp.frame_received(build(dict(item, seq=sim.last_resp_seq & 0xFF)))
        except Exception as ex:
            out["raised"] = repr(ex)
        if item.get("gap"):
            await asyncio.sleep(item["gap"])
    await asyncio.sleep(30)
    out.update(packets=packets, joins=joins, leaves=leaves, want=want)


def check_seq(plan) -> Result:
    r = Result(nontrivial=len(plan["items"]) > 1, classes=["sequence", f"seq-len:{len(plan['items'])}"])
    out = {}
    try:
        vloop.run_case(lambda loop: scenario_seq(loop, plan, out), horizon=1e6)
    except vloop.Hang:
        r.bad("C13:hang", f"{plan}")
        return r
    if out["raised"]:
        r.bad("C13:receive-raises", f"{out['raised']}; plan {plan}")
        return r
    wp, wj, wl = out["want"]
    got_p = [dict(src=_i(p.src.address), src_ep=_i(p.src_ep), dst_ep=_i(p.dst_ep), tsn=_i(p.tsn), profile=_i(p.profile_id),
                  cluster=_i(p.cluster_id), data=bytes(p.data.serialize()), lqi=_i(p.lqi), rssi=_i(p.rssi),
                  dst=(p.dst.addr_mode, None if p.dst.addr_mode.name == "Broadcast" else int(p.dst.address))) for p in out["packets"]]
    if got_p != wp:
        k = next((i for i, (g, w) in enumerate(zip(got_p, wp)) if g != w), min(len(got_p), len(wp)))
        diff = [f for f in (wp[k] if k < len(wp) else {}) if k >= len(got_p) or got_p[k].get(f) != wp[k][f]]
        r.bad("C13:sequence:packets-differ" + (":" + diff[0] if diff else ""), f"packet {k}: got {got_p[k] if k < len(got_p) else None}, want {wp[k] if k < len(wp) else None}; plan {plan}")
    if out["joins"] != wj:
        r.bad("C13:sequence:joins-differ", f"got {out['joins']}, want {wj}; plan {plan}")
    if out["leaves"] != wl:
        r.bad("C13:sequence:leaves-differ", f"got {out['leaves']}, want {wl}; plan {plan}")
    if plan.get("mfg"):
        r.cls("mfg-code-" + plan["mfg"])
    if len({i.get("own", 0) for i in plan["items"]}) > 1:
        r.cls("own-address-changes")
    return r


async def scenario_lifecycle(loop, plan, out):
    """The application is brought up with its real start_network(), receives callbacks, loses the NCP and is brought up
    again on a new EZSP object (as its reconnect does) - with or without an orderly disconnect() in between.  Callbacks on
    the new connection must be translated exactly like on the first one."""
    import bellows.ezsp as e
    import bellows.types as bt
    import zigpy.types as zt
    from vlib import netsim

    v = plan["v"]

    class LifeSim(netsim.NetSim):
        def cmd_addEndpoint(self, **kw):
            return {"status": "OK"}

        def cmd_setConcentrator(self, **kw):
            return {"status": "OK"}

        def cmd_setSourceRouteDiscoveryMode(self, **kw):
            return {"remainingTime": 0}

        def cmd_getMulticastTableEntry(self, index):
            return {"status": "OK", "value": bt.EmberMulticastTableEntry(multicastId=0, endpoint=0, networkIndex=0)}

        def cmd_setMulticastTableEntry(self, index, value):
            return {"status": "OK"}

        def cmd_setManufacturerCode(self, code):
            return {}

        def cmd_getExtendedTimeout(self, **kw):
            return {"extendedTimeout": False}

    def new_connection():
        sim = LifeSim(loop, v)
        sim.network = bt.EmberNetworkParameters(extendedPanId=bt.ExtendedPanId.deserialize(bytes.fromhex("f1f2f3f4f5f6f7f8"))[0], panId=0x7A7A,
                                                radioTxPower=8, radioChannel=25, joinMethod=0, nwkManagerId=0, nwkUpdateId=9, channels=1 << 25)
        sim.current_sec = dict(hashed=v > 4, preconfiguredKey=bytes(range(0x70, 0x80)), networkKey=bytes(range(0x90, 0xA0)), seq=77,
                               tc_eui64=sim.eui64(), given_tc=None)
        sim.stack_up = True
        ezsp = e.EZSP({"path": "/dev/null", "baudrate": 115200, "flow_control": None})
        sim.attach(ezsp)
        ezsp._switch_protocol_version(v)
        ezsp.start_ezsp()
        return sim, ezsp

    app = zshim.make_app()
    packets, joins, leaves = [], [], []
    app.packet_received = lambda p: packets.append(p)
    app.handle_join = lambda nwk, ieee, parent, *a, **k: joins.append((int(nwk), bytes(ieee.serialize()), int(parent)))
    app.handle_leave = lambda nwk, ieee, *a, **k: leaves.append((int(nwk), bytes(ieee.serialize())))
    want = ([], [], [])
    out["raised"] = None
    out["bringup"] = None
    for phase, items in (("first", plan["before"]), ("second", plan["after"])):
        sim, ezsp = new_connection()
        app._ezsp = ezsp
        try:
            app._created_device_endpoints.clear()
            await app.register_endpoints()
            await asyncio.wait_for(app.start_network(), 200)
        except Exception as ex:
            out["bringup"] = f"{phase}: {ex!r}"
            break
        own = int(app.state.node_info.nwk)
        for item in items:
            w = expect(item, own)
            for a, b in zip(want, w):
                a.extend(b)
            try:
                ezsp.frame_received(build(dict(item, seq=sim.last_resp_seq & 0xFF)))
            except Exception as ex:
                out["raised"] = repr(ex)
            await asyncio.sleep(item.get("gap") or 0.01)
        await asyncio.sleep(1)
        if phase == "first":
            if plan["how"] == "disconnect":
                await app.disconnect()
            else:
                # the NCP fails: EZSP stops and asks for a controller restart; the application reconnects without an
                # orderly disconnect
                ezsp.enter_failed_state(0x51)
                await asyncio.sleep(0.1)
    await asyncio.sleep(30)
    out.update(packets=packets, joins=joins, leaves=leaves, want=want)


def check_lifecycle(plan) -> Result:
    r = Result(nontrivial=True, classes=["lifecycle", "reconnect:" + plan["how"]])
    out = {}
    try:
        vloop.run_case(lambda loop: scenario_lifecycle(loop, plan, out), horizon=1e6)
    except vloop.Hang:
        r.bad("C13:hang", f"{plan}")
        return r
    if out.get("bringup"):
        r.bad("C13:harness:bring-up-failed", f"{out['bringup']}; plan {plan}")
        return r
    if out["raised"]:
        r.bad("C13:receive-raises", f"{out['raised']}; plan {plan}")
        return r
    wp, wj, wl = out["want"]
    got_n = (len(out["packets"]), len(out["joins"]), len(out["leaves"]))
    if got_n != (len(wp), len(wj), len(wl)) or out["joins"] != wj or out["leaves"] != wl:
        r.bad("C13:lifecycle:callbacks-not-translated-after-reconnect", f"packets/joins/leaves {got_n}, expected {(len(wp), len(wj), len(wl))} "
              f"({len(plan['before'])} callbacks before and {len(plan['after'])} after the reconnect); plan {plan}")
    return r


def replay(plan) -> Result:
    if "how" in plan:
        return check_lifecycle(plan)
    return check_seq(plan) if "items" in plan else check(plan)


u8 = st.one_of(st.sampled_from([0, 1, 254, 255]), st.integers(0, 255))
u16 = st.one_of(st.sampled_from([0, 1, 0xFFFE, 0xFFFF, 0x0104]), st.integers(0, 0xFFFF))
eui = st.one_of(st.binary(min_size=8, max_size=8),
                st.binary(min_size=5, max_size=5).map(lambda b: b + bytes.fromhex("8CCF04")),   # 04:CF:8C:... Xiaomi (little-endian on the wire)
                st.binary(min_size=5, max_size=5).map(lambda b: b + bytes.fromhex("44EF54")))


@st.composite
def _with_known(draw, base):
    plan = dict(draw(base))
    how = draw(st.sampled_from(["none", "none", "stale-nwk", "other-on-nwk", "both", "exact"]))
    e, n = plan["eui64"], plan["sender" if plan["t"] == "msg" else "nwk"]
    other = "aabbccddeeff0011" if e != "aabbccddeeff0011" else "aabbccddeeff0012"
    known = []
    if how in ("stale-nwk", "both"):
        known.append([e, (n + 0x0101) & 0xFFFF])
    if how in ("other-on-nwk", "both"):
        known.append([other, n])
    if how == "exact":
        known.append([e, n])
    if known:
        plan["known"] = known
    return plan


def msg_plans(v):
    return _with_known(_msg_plans(v))


def join_plans(v):
    return _with_known(_join_plans(v))


def _msg_plans(v):
    return st.fixed_dictionaries({
        "t": st.just("msg"), "v": st.just(v), "seq": u8,
        "mtype": st.one_of(st.integers(0, 6), st.integers(0, 6), st.integers(7, 255)),
        "profile": u16, "cluster": u16, "src_ep": u8, "dst_ep": u8, "options": u16, "group": u16, "aps_seq": u8,
        "lqi": u8, "rssi": st.one_of(st.sampled_from([-128, -1, 0, 127]), st.integers(-128, 127)),
        "sender": u16, "bidx": u8, "aidx": u8,
        "data": st.one_of(st.just(b""), st.binary(max_size=100), st.binary(min_size=100, max_size=100)).map(bytes.hex),
        "eui64": eui.map(bytes.hex), "ts": st.integers(0, 2**32 - 1), "own": st.sampled_from([0x0000, 0x0000, 0x1234]),
    })


def _join_plans(v):
    return st.fixed_dictionaries({
        "t": st.just("join"), "v": st.just(v), "seq": u8, "nwk": u16, "eui64": eui.map(bytes.hex),
        "status": st.one_of(st.integers(0, 7), st.integers(8, 255)), "decision": st.one_of(st.integers(0, 3), st.integers(0, 3), st.integers(4, 255)),
        "parent": u16,
    })


@st.composite
def seq_plans(draw, v):
    n = draw(st.integers(2, 5))
    items = []
    for _ in range(n):
        it = dict(draw(st.one_of(_msg_plans(v), _msg_plans(v), _join_plans(v))))
        if it["t"] == "msg" and draw(st.booleans()):
            it["mtype"] = draw(st.sampled_from([refezsp.INCOMING_UNICAST, refezsp.INCOMING_MULTICAST, refezsp.INCOMING_BROADCAST]))
        if it["t"] == "join" and draw(st.booleans()):
            # an allowed join, more often than not of a device with one of the special IEEE prefixes
            it["status"], it["decision"] = draw(st.sampled_from([0, 1, 3])), draw(st.sampled_from([0, 1, 3]))
        it["own"] = draw(st.sampled_from([0x0000, 0x0000, 0x0000, 0x1234, 0x4A2B]))
        it["gap"] = draw(st.sampled_from([0, 0, 0.001, 0.05, 1.0, 40.0]))
        items.append(it)
    plan = {"v": v, "items": items}
    m = draw(st.sampled_from([None, None, "slow", "silent"]))
    if m:
        plan["mfg"] = m
    return plan


@st.composite
def life_plans(draw, v):
    def items(k):
        out = []
        for _ in range(k):
            it = dict(draw(st.one_of(_msg_plans(v), _join_plans(v))))
            if it["t"] == "msg":
                it["mtype"] = draw(st.sampled_from([refezsp.INCOMING_UNICAST, refezsp.INCOMING_MULTICAST, refezsp.INCOMING_BROADCAST]))
            out.append(it)
        return out
    return {"v": v, "how": draw(st.sampled_from(["failure", "failure", "disconnect"])), "before": items(draw(st.integers(0, 2))),
            "after": items(draw(st.integers(1, 3)))}


def _worker(ctx, job):
    v, n = job
    if v <= 14:
        ctx.search(life_plans(v), check_lifecycle, max_examples=max(n // 40, 4))
    ctx.search(seq_plans(v), check_seq, max_examples=max(n // 2, 30))
    ctx.search(msg_plans(v), check, max_examples=n)
    ctx.search(join_plans(v), check, max_examples=max(n // 3, 20))
    # every update x decision combination
    for s in range(0, 9):
        for d in range(0, 5):
            plan = {"t": "join", "v": v, "seq": 7, "nwk": 0x1234, "eui64": "0102030405060708", "status": s, "decision": d, "parent": 0x4321}
            ctx.check(plan, check(plan), sample=(s == 1 and d == 0))


def run(ctx):
    quick = ctx.tier == "quick"
    n = 400 if quick else 25000
    newer = [15, 16] if quick else [15, 16, 31, 255]
    ctx.parallel(_worker, [(v, n) for v in list(range(4, 15)) + newer])
