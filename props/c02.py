"""C02 — ASH receiver decodes any byte stream like the reference decoder, any chunking.

Differential oracle: vlib.refash.StreamDecoder (byte-at-a-time, written from UG101) with
don't-care switches for inputs the specification leaves open (DESIGN.md 3.2).  The
implementation must equal the reference under SOME fixed switch setting for the case."""
from __future__ import annotations

import itertools
import os
import subprocess
import sys
import tempfile

from hypothesis import strategies as st

from vlib import refash
from vlib.ashh import make_host
from vlib.run import ROOT, HarnessError, Result

LEVEL = "exploration"
RULE = (
    "(i) every string of length <= L (quick 4, thorough 5) over the 17-symbol alphabet {FLAG, ESC, XON, XOFF, SUB, "
    "CAN, their 0x20-flipped twins, C0, BC, 81, 60, 59} appended to each of 3 receive-buffer contexts (empty, "
    "an unterminated RST body, an unterminated DATA body containing an escape pair), fed under all 2^(n-1) "
    "chunkings; (ii) Hypothesis streams: concatenations of valid frames of every type built by the reference "
    "encoder, mutated by byte insertion/deletion/flip and sprinkled control bytes, under generated chunkings that "
    "keep residue+chunk within the receive buffer; (iii) coverage-guided atheris campaign with the same oracle "
    "inside the target; (iv) megabytes of flag-free garbage for the memory bound. Non-trivial = the stream has "
    "(>=1 CRC-valid frame and >=1 reserved byte other than FLAG) or >=1 rejected frame, and >=2 chunks; "
    "distinct by (stream, chunking)."
)
ASSUMPTIONS = [
    "vlib/refash.StreamDecoder is the specification-derived reference; inputs UG101 leaves open are don't-care "
    "switches (escape before flag, double escape, ACK/NAK with data, DATA field length outside 3..128, RSTACK/ERROR "
    "version != 2, ACK-or-NAK for a retransmitted out-of-sequence frame)",
    "equivalence is asserted only while residue + chunk <= MAX_BUFFER_SIZE at every read (DESIGN.md 3.5); a single "
    "read beyond that is the separately reported oversize class",
]

ALPHA = bytes([0x7E, 0x7D, 0x11, 0x13, 0x18, 0x1A, 0x5E, 0x5D, 0x31, 0x33, 0x38, 0x3A, 0xC0, 0xBC, 0x81, 0x60, 0x59])
CTX_BODIES = [
    b"",
    refash.stuff(refash.enc_rst()),
    refash.stuff(refash.enc_data(0, 0, 0, b"\x00\x7e\x11\x02")),
]
MAXBUF = 1024
_SETTINGS = list(refash.all_switch_settings())


def impl_trace(chunks):
    proto, tr, up = make_host()
    for c in chunks:
        proto.data_received(bytes(c))
    events = [(k, v) for k, v in up.simple() if k in ("data", "reset")]
    writes = []
    for f in refash.split_wire(tr.all_bytes()):
        writes.append((f.get("kind"), f.get("ack")))
    return events, writes, proto


def ref_trace(stream, sw=None):
    d = refash.StreamDecoder(sw)
    d.feed(stream)
    return d


def compare(stream: bytes, chunks, r: Result, tag=""):
    try:
        ev, wr, proto = impl_trace(chunks)
    except Exception as e:
        r.bad(f"C02:raises:{type(e).__name__}", f"stream {stream.hex()} chunks {[len(c) for c in chunks]}: {e!r}")
        return None
    d = ref_trace(stream)
    if (d.events, d.writes) == (ev, wr):
        return d
    if d.touched:
        for sw in _SETTINGS:
            d2 = ref_trace(stream, sw)
            if (d2.events, d2.writes) == (ev, wr):
                return d2
    kind = "events" if d.events != ev else "writes"
    r.bad("C02:oversize-read-truncated-before-parsing" if tag else f"C02:differs-from-reference:{kind}",
          f"stream {stream.hex()[:600]} chunks {[len(c) for c in chunks][:50]}\n impl events {ev[:6]} writes {wr[:8]}\n"
          f" ref  events {d.events[:6]} writes {d.writes[:8]} touched {sorted(d.touched)}")
    return d


def classify(stream, nchunks, d, r):
    other = any(b in (0x7D, 0x11, 0x13, 0x18, 0x1A) for b in stream)
    r.nontrivial = nchunks >= 2 and ((d.accepted >= 1 and other) or d.rejected >= 1)
    for s in d.touched:
        r.cls("switch:" + s)
    if d.accepted:
        r.cls("has-valid-frame")
    if d.rejected:
        r.cls("has-rejected-frame")
    if d.events:
        r.cls("has-upward-event")


def check_stream(plan) -> Result:
    chunks = [bytes.fromhex(c) for c in plan["chunks"]]
    stream = b"".join(chunks)
    r = Result()
    d = compare(stream, chunks, r)
    if d is not None:
        classify(stream, len(chunks), d, r)
    return r


def check_oversize(plan) -> Result:
    """A single read larger than the receive buffer that contains complete frames."""
    chunks = [bytes.fromhex(c) for c in plan["chunks"]]
    stream = b"".join(chunks)
    r = Result(nontrivial=True, classes=["oversize-read"])
    compare(stream, chunks, r, tag=":oversize-read")
    if r.violations and len(chunks) == 1 and r.violations[0][0].startswith("C02:oversize"):
        # the listed finding is exactly "truncate to the last 1024 bytes, then decode";
        # anything else in this class is a different violation
        r2 = Result()
        ev, wr, _ = impl_trace(chunks)
        d = ref_trace(stream[-MAXBUF:])
        if (d.events, d.writes) != (ev, wr) and not any(
                (x.events, x.writes) == (ev, wr) for x in (ref_trace(stream[-MAXBUF:], sw) for sw in _SETTINGS)):
            r.violations = [("C02:differs-from-reference:oversize-other", r.violations[0][1])]
    return r


def check_garbage(plan) -> Result:
    """(iv) memory bound + liveness after garbage."""
    import tracemalloc

    kind, total, chunk = plan["kind"], plan["total"], plan["chunk"]
    r = Result(nontrivial=True, classes=["garbage:" + kind], key=["g", kind, total, chunk])
    unit = {
        "uniform": bytes(b for b in range(256) if b != 0x7E and b != 0x1A and b != 0x18) * 4,
        "esc": b"\x7d" * 1000,
        "xon": b"\x11\x13" * 500,
        "sub": (b"\x18" + b"\xee" * 7) * 125,
        "plain": b"\xee" * 1000,
        "esc-data": b"\x7d\x5e\x41" * 333,
    }[kind]
    blob = (unit * (chunk // len(unit) + 2))[:chunk]
    proto, tr, up = make_host()
    tracemalloc.start()
    try:
        base = tracemalloc.get_traced_memory()[0]
        peak_over = 0
        fed = 0
        while fed < total:
            try:
                proto.data_received(blob)
            except Exception as e:
                r.bad(f"C02:raises:{type(e).__name__}", f"garbage {plan}: {e!r}")
                return r
            fed += len(blob)
            cur = tracemalloc.get_traced_memory()[0] - base
            peak_over = max(peak_over, cur)
            if cur > MAXBUF + len(blob) + 65536:
                r.bad("C02:memory-unbounded", f"garbage {plan}: {cur} bytes held after {fed} fed")
                return r
            if len(proto._buffer) > MAXBUF:
                r.bad("C02:buffer-exceeds-cap", f"garbage {plan}: buffer {len(proto._buffer)}")
                return r
    finally:
        tracemalloc.stop()
    if up.events:
        r.bad("C02:delivery-from-garbage", f"{plan}: {up.simple()[:3]}")
    # receiver still alive: FLAG, then a valid frame, must be decoded
    w0 = len(tr.writes)
    proto.data_received(b"\x7e" + refash.wire(refash.enc_data(0, 0, 0, b"\x01\x02\x03\x04")))
    if [(k, v) for k, v in up.simple()] != [("data", b"\x01\x02\x03\x04")]:
        r.bad("C02:dead-after-garbage", f"{plan}: upward {up.simple()[:3]}")
    return r


def replay(plan) -> Result:
    t = plan.get("t", "stream")
    if t == "garbage":
        return check_garbage(plan)
    if t == "oversize":
        return check_oversize(plan)
    return check_stream(plan)


# ------------------------------------------------------------- (i) exhaustive


def chunkings(data: bytes, lead: int):
    """All splits of data[lead:] positions (the context prefix is fed as its own read)."""
    n = len(data) - lead
    if n <= 1:
        yield ([data[:lead]] if lead else []) + ([data[lead:]] if n else [])
        return
    for mask in range(1 << (n - 1)):
        out = [data[:lead]] if lead else []
        start = lead
        for i in range(n - 1):
            if mask >> i & 1:
                out.append(data[start:lead + i + 1])
                start = lead + i + 1
        out.append(data[start:])
        yield out


def _worker_alpha(ctx, job):
    Ls, firsts = job
    for ci, body in enumerate(CTX_BODIES):
        lead = len(body)
        for n in range(1, Ls[ci] + 1):
            for first in firsts:
                for rest in itertools.product(ALPHA, repeat=n - 1):
                    s = bytes([first]) + bytes(rest)
                    stream = body + s
                    d0 = None
                    for chunks in chunkings(stream, lead):
                        r = Result()
                        d = compare(stream, chunks, r)
                        if d is not None:
                            classify(stream, len(chunks), d, r)
                        r.key = hash((ci, s, tuple(len(c) for c in chunks)))
                        plan = {"t": "stream", "chunks": [c.hex() for c in chunks]}
                        ctx.check(plan, r, sample=(len(chunks) == 3 and d is not None and d.accepted > 0 and 0x11 in s))


# ------------------------------------------------------------- (ii) structured


@st.composite
def frame_bytes(draw, state):
    kind = draw(st.sampled_from(["data", "data", "data", "dup", "oos", "ack", "nak", "rst", "rstack", "error", "junk"]))
    if kind in ("data", "dup", "oos"):
        if kind == "data":
            frm = state["rx"]
            state["rx"] = (frm + 1) % 8
        elif kind == "dup":
            frm = (state["rx"] - 1) % 8
        else:
            frm = draw(st.integers(0, 7))
        retx = draw(st.integers(0, 1))
        payload = draw(st.one_of(st.binary(min_size=3, max_size=24),
                                 st.lists(st.sampled_from(list(refash.RESERVED)), min_size=3, max_size=12).map(bytes),
                                 st.binary(min_size=0, max_size=140),
                                 # at and beyond the 256-byte limit of the randomisation sequence (still well below the buffer cap)
                                 st.sampled_from([254, 255, 256, 257, 258, 300]).flatmap(lambda n: st.binary(min_size=n, max_size=n))))
        raw = refash.enc_data(frm, retx, draw(st.integers(0, 7)), payload)
    elif kind == "ack":
        raw = refash.enc_ack(draw(st.integers(0, 7)), draw(st.integers(0, 1)), draw(st.integers(0, 1)))
        if draw(st.integers(0, 9)) == 0:
            raw = refash.with_crc(raw[:1] + b"\x55")
    elif kind == "nak":
        raw = refash.enc_nak(draw(st.integers(0, 7)), draw(st.integers(0, 1)))
    elif kind == "rst":
        raw = refash.enc_rst()
    elif kind == "rstack":
        raw = refash.enc_rstack(draw(st.sampled_from([0x0B, 0x02, 0x00, 0x51, 0xFF])), draw(st.sampled_from([2, 2, 2, 1, 3])))
        state["rx"] = 0 if raw[1] == 2 else state["rx"]
    elif kind == "error":
        raw = refash.enc_error(draw(st.sampled_from([0x51, 0x80, 0x02])), draw(st.sampled_from([2, 2, 1])))
    else:
        raw = refash.with_crc(bytes([draw(st.integers(0xC3, 0xFF))]) + draw(st.binary(max_size=4)))
    return refash.wire(raw, cancel=draw(st.integers(0, 7)) == 0)


@st.composite
def structured(draw):
    state = {"rx": 0}
    nfr = draw(st.integers(1, 30))
    stream = bytearray()
    for _ in range(nfr):
        stream += draw(frame_bytes(state))
    # mutations
    nm = draw(st.integers(0, 8))
    ctl = [0x11, 0x13, 0x18, 0x1A, 0x7D, 0x7E]
    for _ in range(nm):
        if not stream:
            break
        pos = draw(st.integers(0, len(stream) - 1))
        op = draw(st.sampled_from(["ins-ctl", "ins-ctl", "ins", "del", "flip", "set-ctl", "in-pair", "in-pair"]))
        if op == "in-pair":  # a control byte exactly between an escape byte and its partner
            escs = [i for i, b in enumerate(stream) if b == 0x7D]
            if escs:
                at = escs[draw(st.integers(0, len(escs) - 1))] + 1
                stream.insert(at, draw(st.sampled_from([0x11, 0x13, 0x11, 0x13, 0x1A, 0x18, 0x7D])))
        elif op == "ins-ctl":
            stream.insert(pos, draw(st.sampled_from(ctl)))
        elif op == "ins":
            stream.insert(pos, draw(st.integers(0, 255)))
        elif op == "del":
            del stream[pos]
        elif op == "flip":
            stream[pos] ^= 1 << draw(st.integers(0, 7))
        else:
            stream[pos] = draw(st.sampled_from(ctl))
    stream = bytes(stream)
    # chunking under the receive-buffer precondition
    mode = draw(st.sampled_from(["bytes", "small", "mixed", "big"]))
    sizes = draw(st.lists(st.integers(1, {"bytes": 1, "small": 5, "mixed": 60, "big": 900}[mode]), min_size=1, max_size=64))
    chunks = []
    d = refash.StreamDecoder()
    pos, i = 0, 0
    while pos < len(stream):
        n = sizes[i % len(sizes)]
        i += 1
        n = min(n, MAXBUF - d.residue)
        if n <= 0:
            break
        c = stream[pos:pos + n]
        d.feed(c)
        chunks.append(c.hex())
        pos += len(c)
    return {"t": "stream", "chunks": chunks}


@st.composite
def oversize(draw):
    state = {"rx": 0}
    stream = bytearray()
    while len(stream) <= MAXBUF + 40:
        stream += draw(frame_bytes(state))
    return {"t": "oversize", "chunks": [bytes(stream).hex()]}


def _worker_struct(ctx, n):
    ctx.search(structured(), check_stream, max_examples=n)


def _worker_oversize(ctx, n):
    ctx.search(oversize(), check_oversize, max_examples=n)


def _worker_garbage(ctx, job):
    plan = job
    ctx.check(plan, check_garbage(plan))


# ---------------------------------------------------------------- (iii) atheris


def run_atheris(ctx, runs, shards):
    target = os.path.join(ROOT, "fuzz", "ash_rx.py")
    work = tempfile.mkdtemp(prefix="verif_fuzz_c02_")
    procs = []
    env = dict(os.environ)
    try:
        for i in range(shards):
            d = os.path.join(work, f"s{i}")
            os.makedirs(os.path.join(d, "corpus"))
            if i % 2 == 1:  # odd shards start from the hex strings of tests/test_ash.py
                for j, h in enumerate(SEED_CORPUS):
                    open(os.path.join(d, "corpus", f"seed{j}"), "wb").write(b"\x01" + bytes.fromhex(h))
            cmd = [sys.executable, target, os.path.join(d, "corpus"), f"-runs={runs}", f"-seed={ctx.seed * 100 + i + 1}",
                   f"-artifact_prefix={d}/crash-", "-max_len=600", "-print_final_stats=1", "-verbosity=0"]
            env2 = dict(env, FUZZ_STATS=os.path.join(d, "stats.json"))
            procs.append((d, subprocess.Popen(cmd, env=env2, stdout=subprocess.PIPE, stderr=subprocess.STDOUT, text=True)))
        total = 0
        for d, p in procs:
            out, _ = p.communicate()
            execs = 0
            for line in out.splitlines():
                if "stat::number_of_executed_units" in line:
                    execs = int(line.split(":")[-1])
            if os.path.exists(os.path.join(d, "stats.json")):
                import json
                stj = json.load(open(os.path.join(d, "stats.json")))
                ctx.count(stj["n"], nontrivial_keys=stj["nontrivial_keys"], classes=[])
                for k, v in stj["classes"].items():
                    ctx.classes["fuzz:" + k] += v
                total += stj["n"]
            crashes = [f for f in os.listdir(d) if f.startswith("crash-")]
            if p.returncode != 0 and not crashes:
                if "atheris" in out and "No module named" in out:
                    ctx.notes.append("atheris unavailable: fuzz tier skipped")
                    return
                raise HarnessError("atheris target failed without artefact:\n" + out[-1500:])
            for c in crashes:
                data = open(os.path.join(d, c), "rb").read()
                from fuzz.ash_rx import decode_input
                chunks = decode_input(data)
                plan = {"t": "stream", "chunks": [x.hex() for x in chunks]}
                res = check_stream(plan)
                if res.violations:
                    ctx.check(plan, res)
                else:
                    raise HarnessError(f"fuzz crash does not reproduce: {out[-1500:]}")
        ctx.extra["atheris_executions"] = ctx.extra.get("atheris_executions", 0) + total
    finally:
        import shutil
        shutil.rmtree(work, ignore_errors=True)


SEED_CORPUS = [
    "ddf9ff1ac1020b0a527e", "c038bc7e", "c01838bc7e", "c1020b0a527e", "c01138bc137e", "c038bc7e7e7e",
    "c01838bcaabbccddeeff7ec038bc7e7e7e", "25422 1a856a6097e".replace(" ", ""), "8160597e", "a634dc7e",
]


def run(ctx):
    import time
    quick = ctx.tier == "quick"
    t0 = time.time()
    ph = ctx.extra.setdefault("phase_wall_s", {})
    Ls = (4, 4, 4) if quick else (5, 5, 5)
    firsts = list(ALPHA)
    # 17 single-symbol jobs are uneven over 16 workers: split by context as well
    jobs = []
    for ci in range(3):
        for f in firsts:
            jobs.append((tuple(Ls[j] if j == ci else 0 for j in range(3)), [f]))
    ctx.parallel(_worker_alpha, jobs)
    ctx.exhaustive[f"alphabet strings up to length {Ls} in the 3 contexts x all chunkings"] = True
    ctx.extra["alphabet_length_bounds_per_context"] = list(Ls)
    ph["alphabet"] = round(time.time() - t0, 1); t0 = time.time()
    ctx.parallel(_worker_struct, [150] * 16 if quick else [6000] * 16)
    ctx.parallel(_worker_oversize, [40] * 4 if quick else [500] * 8)
    ph["structured"] = round(time.time() - t0, 1); t0 = time.time()
    kinds = ["uniform", "esc", "xon", "sub", "plain", "esc-data"]
    total = 1 << 20 if quick else 16 << 20
    jobs = []
    for k in kinds:
        for chunk in ((1, 100, 65536) if quick else (1, 7, 100, 1000, 1024, 1025, 4096, 65536)):
            jobs.append({"t": "garbage", "kind": k, "total": min(total, chunk * (4000 if quick else 40000)), "chunk": chunk})
    ctx.parallel(_worker_garbage, jobs)
    ph["garbage"] = round(time.time() - t0, 1); t0 = time.time()
    run_atheris(ctx, 20000 if quick else 400000, 2 if quick else 16)
    ph["atheris"] = round(time.time() - t0, 1)
