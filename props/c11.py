"""C11 — reset handshake completes only on the NCP's software-reset acknowledgement.

bellows.uart.Gateway + bellows.ash.AshProtocol on the virtual loop against a scripted peer
(frames built by vlib.refash).  Observed: bytes written, outcome and time of reset() /
wait_for_startup_reset(), application.enter_failed_state / connection_lost calls, and the
frame numbers used after the handshake."""
from __future__ import annotations

import asyncio

from hypothesis import strategies as st

from vlib import refash, vloop
from vlib.ashh import FakeTransport
from vlib.run import Result

LEVEL = "fault_enumeration"
RULE = (
    "a case = prior traffic leaving the host's send / receive numbers at (i, j) in 0..7 x 0..7, then reset() or "
    "wait_for_startup_reset() with a schedule of peer reactions {RSTACK(code), ERROR(code >= 0x51), connection_lost(exc), "
    "connection_lost(None), EOF (also an EOF before the request followed by the transport's own connection_lost after it)} at instants {before the request, at once, 1 s, 4.999 s, 5.001 s, 7 s}, optionally a second "
    "reset() while the first is pending. Enumerated: all 256 RSTACK codes x {in time, before the request, after the timeout, "
    "twice}; all 64 (i, j) states; every error code; loss at each step; 1-3 sends queued behind an in-flight frame that "
    "the NCP acknowledges before / together with its RSTACK (every send number 0..7); plus Hypothesis schedules. Non-trivial = the "
    "schedule contains a reaction other than a single in-time RSTACK(software); distinct by plan."
)
ASSUMPTIONS = [
    "the peer is conforming: ERROR frames carry error codes (>= 0x51), RSTACK frames carry any code",
    "a send still unacknowledged when the handshake completes lies outside the stated quantifier ('prior traffic'); it is "
    "generated in a separate class and reported as an observation, not judged",
]

from vlib import cfg

RESET_TIMEOUT = cfg.reset_timeout()  # "the reset timeout"
SOFTWARE = 0x0B
RST_WIRE = bytes.fromhex("1ac038bc7e")


class AppRec:
    def __init__(self, loop):
        self.loop = loop
        self.failed = []   # (t, code)
        self.lost = []     # (t, repr(exc))
        self.frames = []   # payloads handed up

    def enter_failed_state(self, code):
        self.failed.append((self.loop.time(), int(code) if isinstance(code, int) else repr(code)))

    def connection_lost(self, exc):
        self.lost.append((self.loop.time(), repr(exc)))

    def frame_received(self, data):
        self.frames.append(bytes(data))


class Lost(Exception):
    pass


async def scenario(loop, plan, r):
    import bellows.ash as ash
    import bellows.uart as uart

    app = AppRec(loop)
    gw = uart.Gateway(app)
    proto = ash.AshProtocol(gw)
    tr = FakeTransport(loop)
    tr.protocol = proto
    proto.connection_made(tr)
    state = {"iter": -1}

    def feed(raw):
        if loop.iterations == state["iter"]:
            loop.call_soon(feed, raw)
            return
        state["iter"] = loop.iterations
        proto.data_received(refash.wire(raw))

    # auto-ack host DATA during prior traffic
    def sink(data):
        for f in refash.split_wire(data):
            if f.get("kind") == "DATA" and state.get("autoack"):
                loop.call_later(0.001, feed, refash.enc_ack((f["frm"] + 1) % 8))

    tr.sink = sink
    state["autoack"] = True
    prior = plan.get("prior")
    if prior:
        # an earlier reset on the same connection (answered in time, or never): whatever it armed or registered must not
        # reach into the request under test
        tp = loop.time()
        ptask = asyncio.ensure_future(gw.reset())
        if prior.get("answer") is not None:
            loop.call_at(tp + prior["answer"], feed, refash.enc_rstack(SOFTWARE))
        await asyncio.wait([ptask], timeout=20)
        p_ok = ptask.done() and not ptask.cancelled() and ptask.exception() is None
        p_to = ptask.done() and not ptask.cancelled() and isinstance(ptask.exception(), asyncio.TimeoutError)
        if prior.get("answer") is not None and not p_ok:
            r.bad("C11:reset-outcome:earlier-reset-not-completed", f"{ptask}; plan {plan}")
            return
        if prior.get("answer") is None and not p_to:
            r.bad("C11:reset-outcome:earlier-reset-did-not-time-out", f"{ptask}; plan {plan}")
            return
        if not ptask.done():
            ptask.cancel()
        if prior.get("answer") is None:
            # numbering is whatever it was; a late answer to that abandoned reset is not part of this plan
            pass
        r.cls("earlier-reset:" + ("answered" if prior.get("answer") is not None else "timed-out"))
    for k in range(plan["i"]):
        try:
            await asyncio.wait_for(gw.send_data(bytes([0x10 + k, 1, 2, 3])), 50)
        except asyncio.CancelledError:
            raise
        except BaseException as ex:
            if prior:
                # every frame was acknowledged by the peer at once: after an earlier reset request (answered or given up)
                # the link must carry traffic as before
                r.bad("C11:acknowledged-send-fails-after-earlier-reset", f"send {k} raised {ex!r}; plan {plan}")
                return
            raise
    for k in range(plan["j"]):
        feed(refash.enc_data(k, 0, plan["i"] % 8, bytes([0x20 + k, 9, 9, 9])))
        await asyncio.sleep(0.002)
    if proto._tx_seq != plan["i"] % 8 or proto._rx_seq != plan["j"] % 8 or len(app.frames) != plan["j"]:
        r.bad("C11:harness:prior-traffic", f"tx {proto._tx_seq} rx {proto._rx_seq} frames {len(app.frames)}")
        return
    if plan.get("prefail"):
        # the host has given up on the link by itself (a DATA frame unanswered until the retry budget was used up; the NCP
        # never sent an ERROR frame) - the state a reset is asked for in practice
        state["autoack"] = False
        dead = asyncio.ensure_future(gw.send_data(b"\x70\x01\x02\x03"))
        await asyncio.wait([dead], timeout=60)
        if not dead.done() or dead.exception() is None:
            r.bad("C11:harness:prefail", f"unanswered send ended {dead}")
            return
        state["autoack"] = True
        r.cls("host-had-declared-the-link-failed")
    if plan.get("xnoise"):
        # a stray XOFF (and maybe XON) from the NCP some time before the request
        for b in plan["xnoise"]:
            proto.data_received(bytes([b]))
            await asyncio.sleep(0.002)
        r.cls("flow-control-noise")
    inflight = None
    if plan.get("inflight"):
        state["autoack"] = False
        inflight = asyncio.ensure_future(gw.send_data(b"\x77\x01\x02\x03"))
        await asyncio.sleep(0.001)
    # events scheduled relative to the request instant t0; negative = before the request
    pre = [e for e in plan["events"] if e[0] < 0]
    for e in pre:
        _fire(loop, gw, proto, feed, e)
        await asyncio.sleep(0.003)
    if prior and loop.time() < tp + prior["gap"]:
        await asyncio.sleep(tp + prior["gap"] - loop.time())
    nfail0 = len(app.failed)
    w0 = len(tr.writes)
    t0 = loop.time()
    op = plan["op"]
    task = asyncio.ensure_future(gw.reset() if op == "reset" else gw.wait_for_startup_reset())
    tend = {}
    task.add_done_callback(lambda f: tend.setdefault("t", loop.time()))
    for e in plan["events"]:
        if e[0] >= 0:
            loop.call_at(t0 + e[0], _fire, loop, gw, proto, feed, e)
    second = None
    if plan.get("second") is not None and op == "reset":
        async def later():
            await asyncio.sleep(plan["second"])
            return await gw.reset()
        second = asyncio.ensure_future(later())
    horizon = 30 if op == "reset" else 12
    await asyncio.wait([task], timeout=horizon)
    last = max([e[0] for e in plan["events"]] + [0])
    if loop.time() < t0 + last + 0.05:
        await asyncio.sleep(t0 + last + 0.05 - loop.time())
    # ---- oracle
    writes = [d for _, d in tr.writes[w0:]]
    if op == "reset":
        rst = [d for d in writes if d == RST_WIRE]
        n_expected = 1  # a second reset() while one is pending must not write another RST... (not stated) -> only check the first
        if not writes or writes[0] != RST_WIRE or (tr.writes[w0][0] != t0):
            if not (tr.closed or proto._transport is None):
                r.bad("C11:reset-request-bytes", f"first bytes written {writes[:1]!r} at {tr.writes[w0][0] if len(tr.writes) > w0 else None}, expected 1ac038bc7e at {t0}")
                return
    evs = sorted([e for e in plan["events"] if e[0] >= 0], key=lambda e: e[0])
    # reference outcome
    exp = None
    for e in evs:
        if e[0] >= RESET_TIMEOUT and op == "reset":
            break
        if e[1] == "rstack" and e[2] == SOFTWARE:
            exp = ("ok", e[0])
            break
        if e[1] in ("lost", "lost_none", "eof"):
            exp = ("connection-error", e[0])
            break
    if exp is None:
        exp = ("TimeoutError", RESET_TIMEOUT) if op == "reset" else ("pending", None)
    if not task.done():
        got = ("pending", None)
        task.cancel()
    elif task.cancelled():
        got = ("cancelled", None)
    elif task.exception() is not None:
        ex = task.exception()
        got = ("TimeoutError" if isinstance(ex, asyncio.TimeoutError) else
               "connection-error" if isinstance(ex, (Lost, ConnectionResetError)) else type(ex).__name__, None)
    else:
        got = ("ok", None)
    end = None
    if got[0] != exp[0]:
        r.bad(f"C11:{op}-outcome:{got[0]}-instead-of-{exp[0]}", f"plan {plan}")
        return
    # completion time: on the deciding event, or at the reset timeout
    if exp[1] is not None and task.done() and "t" in tend and not plan.get("second"):
        if abs(tend["t"] - (t0 + exp[1])) > 0.01:
            r.bad(f"C11:{op}-ended-at-wrong-time:{exp[0]}", f"ended {tend['t'] - t0:.4f} s after the request, deciding event at {exp[1]}; plan {plan}")
            return
    # failure triage: every RSTACK with another code and every ERROR -> enter_failed_state(code), exactly once each
    want_failed = [e[2] for e in evs if (e[1] == "rstack" and e[2] != SOFTWARE) or e[1] == "error"]
    # events after a connection loss never arrive (transport gone)
    cut = next((e[0] for e in evs if e[1] in ("lost", "lost_none", "eof")), None)
    if cut is not None:
        want_failed = [e[2] for e in evs if e[0] < cut and ((e[1] == "rstack" and e[2] != SOFTWARE) or e[1] == "error")]
    got_failed = [c for _, c in app.failed[nfail0:]]
    if got_failed != want_failed and not plan.get("inflight"):
        r.bad("C11:failure-triage", f"enter_failed_state calls {got_failed}, expected {want_failed}; plan {plan}")
        return
    if second is not None:
        await asyncio.wait([second], timeout=40)
        if not second.done():
            r.bad("C11:second-reset-waiter-left-pending", f"plan {plan}")
            second.cancel()
            return
        ok2 = (not second.cancelled()) and second.exception() is None
        if ok2 and not any(e[1] == "rstack" and e[2] == SOFTWARE for e in evs):
            r.bad("C11:second-reset-completed-without-rstack", f"plan {plan}")
            return
    if op == "startup" and got[0] == "pending":
        return
    # waiters released on loss
    if gw._reset_future is not None and cut is not None:
        r.bad("C11:waiter-left-after-connection-loss", f"plan {plan}")
        return
    # numbering after a completed handshake
    later_trouble = any(e[0] > exp[1] and e[1] in ("error", "rstack") for e in evs) if exp[1] is not None else True
    if got[0] == "ok" and not plan.get("inflight") and cut is None and not later_trouble:
        await asyncio.sleep(8)
        state["autoack"] = True
        w1 = len(tr.writes)
        nfr = len(app.frames)
        send = asyncio.ensure_future(gw.send_data(b"\x55\xaa\x00\x01"))
        await asyncio.sleep(0.0005)
        frames = [f for _, d in tr.writes[w1:] for f in refash.split_wire(d)]
        data = [f for f in frames if f.get("kind") == "DATA"]
        if not data or data[0]["frm"] != 0 or data[0]["ack"] != 0:
            r.bad("C11:numbering-not-restarted:host-send", f"first DATA after reset {data[:1]}; plan {plan}")
            return
        await asyncio.wait([send], timeout=30)
        feed(refash.enc_data(0, 0, 1, b"\x66\x01\x02\x03"))
        await asyncio.sleep(0.01)
        if app.frames[nfr:] != [b"\x66\x01\x02\x03"]:
            r.bad("C11:numbering-not-restarted:peer-frame-0-refused", f"handed up {app.frames[nfr:]}; plan {plan}")
            return
    if inflight is not None:
        await asyncio.wait([inflight], timeout=40)
        frames = [f for _, d in tr.writes[w0:] for f in refash.split_wire(d) if f.get("kind") == "DATA"]
        r.cls("observation:inflight-send-at-reset")
        if frames and any(f["frm"] != 0 for f in frames):
            r.cls("observation:inflight-retransmitted-with-pre-reset-number")
        if not inflight.done():
            inflight.cancel()


async def scenario_queued(loop, plan, r):
    """Sends queued behind an in-flight frame while the handshake takes place.  The in-flight frame is acknowledged
    by the NCP before its RSTACK (a conforming NCP acknowledges what it received before it processed the RST), so
    every frame written after the handshake is a NEW frame: the first must be 0/0 and the rest consecutive."""
    import bellows.ash as ash
    import bellows.uart as uart

    app = AppRec(loop)
    gw = uart.Gateway(app)
    proto = ash.AshProtocol(gw)
    tr = FakeTransport(loop)
    tr.protocol = proto
    proto.connection_made(tr)
    state = {"iter": -1, "autoack": True}

    def feed_wire(data):
        if loop.iterations == state["iter"]:
            loop.call_soon(feed_wire, data)
            return
        state["iter"] = loop.iterations
        proto.data_received(data)

    def sink(data):
        for f in refash.split_wire(data):
            if f.get("kind") == "DATA" and state["autoack"]:
                loop.call_later(0.001, feed_wire, refash.wire(refash.enc_ack((f["frm"] + 1) % 8)))

    tr.sink = sink
    i = plan["i"]
    for k in range(i):
        await asyncio.wait_for(gw.send_data(bytes([0x10 + k, 1, 2, 3])), 50)
    for k in range(plan["j"]):
        feed_wire(refash.wire(refash.enc_data(k, 0, i % 8, bytes([0x20 + k, 9, 9, 9]))))
        await asyncio.sleep(0.002)
    state["autoack"] = False
    sends = [asyncio.ensure_future(gw.send_data(b"\x77\x01\x02\x03"))]
    await asyncio.sleep(0.001)
    for k in range(plan["queued"]):
        sends.append(asyncio.ensure_future(gw.send_data(bytes([0x78 + k, 1, 2, 3]))))
        await asyncio.sleep(0.0005)
    ack = refash.wire(refash.enc_ack((i + 1) % 8))
    rstack = refash.wire(refash.enc_rstack(SOFTWARE))
    how = plan["ack"]
    if how == "before-request":
        feed_wire(ack)
        await asyncio.sleep(0)  # the ACK is processed, the queued frame may already be on the wire: skip (other class)
    w0 = len(tr.writes)
    task = asyncio.ensure_future(gw.reset())
    await asyncio.sleep(0.0005)
    if how == "between":
        feed_wire(ack)
        await asyncio.sleep(0.0002)
        w_after = len(tr.writes)
        state["autoack"] = True
        feed_wire(rstack)
    elif how == "same-chunk":
        w_after = len(tr.writes)
        state["autoack"] = True
        feed_wire(ack + rstack)
    else:
        w_after = len(tr.writes)
        state["autoack"] = True
        feed_wire(rstack)
    await asyncio.wait([task], timeout=20)
    if not task.done() or task.cancelled() or task.exception() is not None:
        r.bad("C11:reset-outcome:queued-sends", f"reset did not complete: {task}; plan {plan}")
        return
    await asyncio.wait(sends, timeout=60)
    frames = [f for _, d in tr.writes[w_after:] for f in refash.split_wire(d) if f.get("kind") == "DATA"]
    if how == "between":
        # a queued frame may have left between the ACK and the RSTACK with a pre-reset number: it was sent BEFORE the
        # handshake completed; only frames first written after the RSTACK are judged
        frames = [f for tm, d in tr.writes[w_after:] for f in refash.split_wire(d) if f.get("kind") == "DATA"]
    new = [f for f in frames if not f["retx"]]
    r.cls("queued-behind-inflight", "ack:" + how)
    if how == "before-request":
        r.cls("observation:queued-frame-left-before-reset")
        for x in sends:
            x.cancel()
        return
    if new:
        if new[0]["frm"] != 0 or new[0]["ack"] != 0:
            r.bad("C11:numbering-not-restarted:queued-send", f"first new DATA after the handshake {new[0]}; plan {plan}")
            return
        nums = [f["frm"] for f in new]
        if nums != [k % 8 for k in range(len(nums))]:
            r.bad("C11:numbering-not-consecutive-after-reset:queued-send", f"{nums}; plan {plan}")
            return
    if how == "same-chunk" and len(new) != plan["queued"]:
        r.bad("C11:queued-send-lost-over-reset", f"{len(new)} new frames for {plan['queued']} queued sends; plan {plan}")
        return
    for x in sends:
        if not x.done():
            x.cancel()


def check_queued(plan) -> Result:
    r = Result()
    try:
        vloop.run_case(lambda loop: scenario_queued(loop, plan, r), horizon=1e6)
    except vloop.Hang:
        r.bad("C11:hang", f"{plan}")
    r.nontrivial = True
    return r


def _fire(loop, gw, proto, feed, e):
    kind = e[1]
    if kind == "rstack":
        feed(refash.enc_rstack(e[2]))
    elif kind == "error":
        feed(refash.enc_error(e[2]))
    elif kind == "lost":
        proto.connection_lost(Lost("gone"))
    elif kind == "lost_none":
        proto.connection_lost(None)
    elif kind == "eof":
        proto.eof_received()


def check(plan) -> Result:
    r = Result()
    try:
        vloop.run_case(lambda loop: scenario(loop, plan, r), horizon=1e6)
    except vloop.Hang:
        r.bad("C11:hang", f"{plan}")
    evs = plan["events"]
    r.nontrivial = not (len(evs) == 1 and evs[0][1] == "rstack" and evs[0][2] == SOFTWARE and 0 <= evs[0][0] < RESET_TIMEOUT)
    r.cls("op:" + plan["op"])
    for e in evs:
        r.cls("ev:" + e[1] + (":software" if e[1] == "rstack" and e[2] == SOFTWARE else ""))
        if e[0] < 0:
            r.cls("before-request")
        elif e[0] >= RESET_TIMEOUT:
            r.cls("after-timeout")
    if plan.get("second") is not None:
        r.cls("second-reset")
    return r


def replay(plan) -> Result:
    return check_queued(plan) if "queued" in plan else check(plan)


TIMES = [-1, 0.0005, 1.0, 4.999, 5.001, 7.0]


@st.composite
def plans(draw):
    op = draw(st.sampled_from(["reset", "reset", "startup"]))
    n = draw(st.integers(0, 4))
    used = set()
    evs = []
    for _ in range(n):
        tt = draw(st.sampled_from(TIMES)) + draw(st.sampled_from([0, 0.0001, 0.0002]))
        if tt in used:
            continue
        used.add(tt)
        kind = draw(st.sampled_from(["rstack", "rstack", "rstack", "error", "lost", "lost_none", "eof"]))
        if kind == "rstack":
            code = draw(st.one_of(st.just(SOFTWARE), st.just(SOFTWARE), st.integers(0, 255)))
        elif kind == "error":
            code = draw(st.sampled_from([0x51, 0x80, 0x52, 0xFF, 0x81]))
        else:
            code = 0
        evs.append([round(tt, 4), kind, code])
    evs.sort()
    # nothing can arrive after the connection is gone, and a lost connection before the request is another scenario
    out = []
    for e in evs:
        if e[1] in ("lost", "lost_none") and e[0] < 0:
            continue
        out.append(e)
        # an end-of-file seen BEFORE the request does not end the scenario: the transport reports the actual close
        # later (asyncio calls connection_lost after eof_received), and a waiter registered in between must be released
        if e[1] in ("lost", "lost_none") or (e[1] == "eof" and e[0] >= 0):
            break
    plan = {"i": draw(st.integers(0, 9)), "j": draw(st.integers(0, 9)), "op": op, "events": out}
    if op == "reset" and draw(st.integers(0, 4)) == 0:
        plan["second"] = draw(st.sampled_from([0.0003, 0.5, 4.9995]))
    if draw(st.integers(0, 9)) == 0:
        plan["inflight"] = True
    elif draw(st.integers(0, 5)) == 0:
        plan["prefail"] = True
    if draw(st.integers(0, 3)) == 0:
        ans = draw(st.sampled_from([0.001, 0.1, 2.0, 4.9, None]))
        base = 5.0 if ans is None else ans
        plan["prior"] = {"answer": ans, "gap": round(base + draw(st.sampled_from([0.01, 0.4, 1.0, 2.9, 3.9, 4.5, 4.89, 4.99, 5.5, 9.0])), 4)}
    if draw(st.integers(0, 5)) == 0:
        plan["xnoise"] = draw(st.sampled_from([[0x13], [0x13, 0x11], [0x11], [0x13, 0x13]]))
    return plan


def _worker(ctx, n):
    ctx.search(plans(), check, max_examples=n)


def _worker_enum(ctx, job):
    for plan in job:
        if "queued" in plan:
            ctx.check(plan, check_queued(plan), sample=(plan["i"] == 3 and plan["queued"] == 2))
            continue
        ctx.check(plan, check(plan), sample=(plan["events"] and plan["events"][0][2] == 0x02 and plan["i"] == 3))


def enum_plans(quick):
    out = []
    for code in range(256):
        for arr in ("in", "before", "late", "twice"):
            ev = {"in": [[0.5, "rstack", code]], "before": [[-1, "rstack", code]], "late": [[5.001, "rstack", code]],
                  "twice": [[0.5, "rstack", code], [0.6, "rstack", code]]}[arr]
            for op in ("reset", "startup"):
                out.append({"i": 3, "j": 5, "op": op, "events": ev})
    for i in range(8):
        for j in range(8):
            out.append({"i": i, "j": j, "op": "reset", "events": [[0.01, "rstack", SOFTWARE]]})
            if not quick:
                out.append({"i": i + 8, "j": j + 8, "op": "reset", "events": [[4.999, "rstack", SOFTWARE]]})
    for code in list(range(0x51, 0x60)) + list(range(0x80, 0x90)) + [0xFF]:
        out.append({"i": 1, "j": 1, "op": "reset", "events": [[0.5, "error", code]]})
        out.append({"i": 1, "j": 1, "op": "reset", "events": [[0.5, "error", code], [1.0, "rstack", SOFTWARE]]})
        out.append({"i": 1, "j": 1, "op": "startup", "events": [[0.5, "error", code]]})
    for kind in ("lost", "lost_none", "eof"):
        for tt in (0.0005, 1.0, 4.999):
            for op in ("reset", "startup"):
                out.append({"i": 2, "j": 2, "op": op, "events": [[tt, kind, 0]]})
                out.append({"i": 2, "j": 2, "op": op, "events": [[tt / 2, "rstack", 0x02], [tt, kind, 0]]})
            out.append({"i": 2, "j": 2, "op": "reset", "events": [[tt, kind, 0]], "second": 0.0003})
            if kind != "eof":
                for op in ("reset", "startup"):
                    out.append({"i": 2, "j": 2, "op": op, "events": [[-1, "eof", 0], [tt, kind, 0]]})
    for op in ("reset", "startup"):
        for extra in ({"prefail": True}, {"xnoise": [0x13]}, {"xnoise": [0x13, 0x11]}, {"prefail": True, "xnoise": [0x13]}):
            for ev in ([[0.01, "rstack", SOFTWARE]], [[0.5, "rstack", 0x02], [1.0, "rstack", SOFTWARE]], [[0.5, "error", 0x51]]):
                out.append(dict({"i": 3, "j": 2, "op": op, "events": ev}, **extra))
    for op in ("reset", "startup"):
        for ans in (0.1, 2.0, None):
            for gap in (0.5, 2.5, 4.5, 4.9, 4.999, 5.5, 7.0, 9.9, 10.5):
                if gap <= (5.0 if ans is None else ans):
                    continue
                for ev in ([[1.0, "rstack", SOFTWARE]], [[4.999, "rstack", SOFTWARE]], [[0.3, "rstack", 0x02], [3.0, "rstack", SOFTWARE]], [],
                           [[2.0, "error", 0x51], [4.0, "rstack", SOFTWARE]]):
                    out.append({"i": 2, "j": 3, "op": op, "events": ev, "prior": {"answer": ans, "gap": gap}})
    for i in range(8):
        for q in (1, 2, 3):
            for how in ("same-chunk", "between", "before-request"):
                out.append({"i": i, "j": (i * 3) % 8, "queued": q, "ack": how, "events": [[0.001, "rstack", SOFTWARE]], "op": "reset"})
    return out


def run(ctx):
    quick = ctx.tier == "quick"
    ps = enum_plans(quick)
    ctx.parallel(_worker_enum, [ps[i::32] for i in range(32)])
    ctx.exhaustive["all 256 RSTACK codes x 4 arrivals x 2 waiters; 64 counter states; error codes; loss points"] = True
    ctx.parallel(_worker, [500] * 16 if quick else [25000] * 16)
