"""C16 — config write never shrinks a table, honours overrides, sets buffer count last.

EZSP.write_config() runs against vlib.simncp with a configuration/value store; the oracle
reads only the sequence of setConfigurationValue / setValue frames the simulator saw."""
from __future__ import annotations

import asyncio

from hypothesis import strategies as st

from vlib import simncp, vloop
from vlib.run import Result

LEVEL = "exploration"
RULE = (
    "a case = protocol version 4..14 x current NCP value per setting {below, equal to, above the default, unreadable} x "
    "override set drawn from that version's schema keys (in-range values, None = disabled; keys inside and outside the "
    "default list) x per-setting accept/reject status (defined and undefined codes). Each case also runs once with every "
    "setting accepted (metamorphic twin); a third of the cases are preceded by an earlier, unjudged write_config call on the "
    "same EZSP object whose overrides raise some NCP values. Non-trivial = at least one override or one rejection or one current value above "
    "the default; distinct by plan."
)
ASSUMPTIONS = [
    "capacity settings are identified by name, independently of the code's grow-only markers: every *_TABLE_SIZE, "
    "TRUST_CENTER_ADDRESS_CACHE_SIZE, MAX_END_DEVICE_CHILDREN, SUPPORTED_NETWORKS",
    "a value injected by a version's schema default counts as bellows' own default, not as user-supplied",
]


def is_capacity(name):
    return name.endswith("_TABLE_SIZE") or name in (
        "CONFIG_TRUST_CENTER_ADDRESS_CACHE_SIZE", "CONFIG_MAX_END_DEVICE_CHILDREN", "CONFIG_SUPPORTED_NETWORKS")


class ConfigSim(simncp.SimNcp):
    def __init__(self, loop, version, current, reject):
        super().__init__(loop, version)
        self.current = dict(current)  # name -> int | None (unreadable)
        self.reject = dict(reject)    # name -> status int
        self.sets = []                # (kind, name, value) in order
        self.values = {}

    def cmd_getConfigurationValue(self, configId):
        name = configId.name
        cur = self.current.get(name, 0)
        if cur is None:
            return {"status": "ERROR_INVALID_ID", "value": 0}
        return {"status": "OK", "value": cur}

    def cmd_setConfigurationValue(self, configId, value):
        name = configId.name
        self.sets.append(("config", name, int(value)))
        if name in self.reject:
            return {"status": self.reject[name]}
        self.current[name] = int(value)
        return {"status": "OK"}

    def cmd_getValue(self, valueId):
        name = valueId.name
        if self.current.get(name, 0) is None:
            return {"status": "ERROR_INVALID_ID", "value": b""}
        return {"status": "OK", "value": bytes([self.current.get(name, 0) & 0xFF])}

    def cmd_setValue(self, valueId, value):
        name = valueId.name
        self.sets.append(("value", name, bytes(value)))
        if name in self.reject:
            return {"status": self.reject[name]}
        return {"status": "OK"}


def run_once(v, current, overrides, reject, first=None):
    import bellows.ezsp as e

    out = {}

    async def body(loop):
        sim = ConfigSim(loop, v, current, {} if first is not None else reject)
        ezsp = e.EZSP({"path": "/dev/null"})
        sim.attach(ezsp)
        ezsp._switch_protocol_version(v)
        ezsp.start_ezsp()
        if first is not None:
            # an earlier configuration write on the same EZSP object (bring-up writes the configuration more than once);
            # it is not judged, it only leaves the NCP - and the host object - in whatever state it leaves them
            try:
                await asyncio.wait_for(ezsp.write_config(dict(first)), 2000)
            except Exception as ex:
                out["first_exc"] = ex
            sim.sets = []
            sim.reject = dict(reject)
        out["current_before"] = dict(sim.current)
        try:
            await asyncio.wait_for(ezsp.write_config(dict(overrides)), 2000)
            out["exc"] = None
        except Exception as ex:
            out["exc"] = ex
        out["sets"] = sim.sets
        out["unhandled"] = sim.unhandled

    vloop.run_case(body, horizon=1e6)
    return out


def schema_defaults(v):
    """names the version's schema injects on its own (vol.Optional(..., default=...))."""
    import bellows.ezsp as e
    import voluptuous as vol

    sch = e.EZSP._BY_VERSION[v].SCHEMAS["ezsp_config"].schema
    out = {}
    for k in sch:
        if isinstance(k, vol.Optional) and not isinstance(k.default, vol.Undefined):
            out[str(k)] = k.default()
    return out


def default_names(v):
    from bellows.ezsp.config import DEFAULT_CONFIG, RuntimeConfig

    return {c.config_id.name: c.value for c in DEFAULT_CONFIG[v] if isinstance(c, RuntimeConfig)}


def check(plan) -> Result:
    v = plan["v"]
    current, overrides, reject = plan["current"], plan["overrides"], plan["reject"]
    r = Result()
    out = run_once(v, current, overrides, reject, plan.get("first"))
    current = out.get("current_before", current)
    defaults = default_names(v)
    injected = schema_defaults(v)
    ver = f"v{v}"
    if out["unhandled"]:
        r.bad("C16:harness:unhandled-command", f"{out['unhandled']}")
        return r
    disabled_nondefault = [n for n, val in overrides.items() if val is None and n not in defaults]
    if out["exc"] is not None:
        ex = out["exc"]
        if isinstance(ex, KeyError) and disabled_nondefault and ex.args and ex.args[0] in disabled_nondefault:
            r.bad("C16:raises:KeyError:disable-nondefault", f"{plan}: {ex!r}")
        else:
            r.bad(f"C16:raises:{type(ex).__name__}", f"{plan}: {ex!r}")
        return r
    sets = out["sets"]
    names = [n for _, n, _ in sets]
    # at most once
    for n in set(names):
        if names.count(n) > 1:
            r.bad("C16:set-more-than-once", f"{n} x{names.count(n)}; plan {plan}")
    written = {n: val for _, n, val in sets}
    # user-supplied values exactly; disabled -> nothing
    for n, val in overrides.items():
        if val is None:
            if n in written:
                r.bad("C16:disabled-setting-written", f"{n}={written[n]}; plan {plan}")
        else:
            if written.get(n) != val:
                r.bad("C16:user-value-not-written-exactly", f"{n}: wanted {val}, wrote {written.get(n)}; plan {plan}")
    # never shrink a capacity setting when applying own defaults
    for kind, n, val in sets:
        if kind != "config" or not is_capacity(n) or n in overrides:
            continue
        cur = current.get(n, 0)
        if cur is not None and val < cur:
            src = "schema-default" if n in injected else "default-list"
            r.bad(f"C16:shrink:{n}:{src}:{ver}", f"{ver}: NCP reports {cur}, bellows wrote {val}; plan {plan}")
    # buffer count last
    if "CONFIG_PACKET_BUFFER_COUNT" in names:
        idx = names.index("CONFIG_PACKET_BUFFER_COUNT")
        after = names[idx + 1:]
        if after:
            outside = [n for n in after if n not in defaults]
            if outside and len(outside) == len(after) and all(n in overrides for n in outside):
                r.bad("C16:buffer-count-not-last:user-key-outside-defaults", f"{ver}: written after it: {after}; plan {plan}")
            else:
                r.bad("C16:buffer-count-not-last", f"{ver}: written after it: {after}; plan {plan}")
    # a rejection does not stop the rest: same sequence of IDs as the all-accept twin
    if reject:
        twin = run_once(v, plan["current"], overrides, {}, plan.get("first"))
        if twin["exc"] is None and [n for _, n, _ in twin["sets"]] != names:
            r.bad("C16:rejection-changes-what-is-written", f"{ver}: with rejects {names}, without {[n for _, n, _ in twin['sets']]}; plan {plan}")
        r.cls("rejection")
    above = [n for n, c in current.items() if c is not None and n in defaults and c > defaults[n]]
    r.nontrivial = bool(overrides) or bool(reject) or bool(above)
    if overrides:
        r.cls("override")
    if any(val is None for val in overrides.values()):
        r.cls("disabled")
    if any(n not in defaults for n in overrides):
        r.cls("override-outside-defaults")
    if above:
        r.cls("current-above-default")
    if any(c is None for c in current.values()):
        r.cls("unreadable")
    if plan.get("first") is not None:
        r.cls("earlier-write-on-same-object")
    r.cls(ver)
    return r


def replay(plan) -> Result:
    return check(plan)


# --------------------------------------------------------------------- generators

_CANDS = [0, 1, 2, 3, 5, 8, 12, 14, 16, 30, 32, 60, 100, 200, 254, 255, 1000, 7680, 65535]
_schema_cache = {}


def schema_keys(v):
    """name -> list of in-range candidate values for version v's config schema."""
    if v in _schema_cache:
        return _schema_cache[v]
    import bellows.ezsp as e
    import voluptuous as vol

    sch = e.EZSP._BY_VERSION[v].SCHEMAS["ezsp_config"].schema
    out = {}
    for k, validator in sch.items():
        name = str(k)
        one = vol.Schema({vol.Required(name): validator})
        ok = []
        for c in _CANDS:
            try:
                one({name: c})
                ok.append(c)
            except vol.Invalid:
                pass
        if ok:
            out[name] = ok
    _schema_cache[v] = out
    return out


@st.composite
def plans(draw, versions=tuple(range(4, 15))):
    v = draw(st.sampled_from(list(versions)))
    keys = schema_keys(v)
    defaults = default_names(v)
    names = sorted(keys)
    inside = [n for n in names if n in defaults]
    outside = [n for n in names if n not in defaults]
    chosen = draw(st.lists(st.sampled_from(inside), max_size=4, unique=True)) if inside else []
    chosen += draw(st.lists(st.sampled_from(outside), max_size=3, unique=True)) if outside else []
    overrides = {}
    for n in chosen:
        overrides[n] = draw(st.one_of(st.none(), st.sampled_from(keys[n]), st.sampled_from(keys[n])))
    current = {}
    from bellows.ezsp.config import DEFAULT_CONFIG, ValueConfig
    for n in sorted(set(defaults) | set(chosen)):
        d = defaults.get(n, 16)
        mode = draw(st.sampled_from(["below", "equal", "above", "above", "unreadable", "zero"]))
        current[n] = {"below": max(d - 1, 0), "equal": d, "above": min(d + draw(st.sampled_from([1, 7, 100])), 65535),
                      "unreadable": None, "zero": 0}[mode]
    for c in DEFAULT_CONFIG[v]:
        if isinstance(c, ValueConfig):
            current[c.value_id.name] = draw(st.sampled_from([0, 1, None]))
    rej_names = draw(st.lists(st.sampled_from(sorted(current)), max_size=3, unique=True))
    reject = {n: draw(st.sampled_from([0x35, 0x36, 0x37, 0x38, 0x01, 0xEE])) for n in rej_names}
    plan = {"v": v, "current": current, "overrides": overrides, "reject": reject}
    if draw(st.integers(0, 2)) == 0:
        first = {}
        for n in draw(st.lists(st.sampled_from(inside), max_size=3, unique=True)) if inside else []:
            cands = [c for c in keys[n] if c is not None]
            if cands:
                first[n] = max(cands) if draw(st.booleans()) else draw(st.sampled_from(cands))
        plan["first"] = first
    return plan


def _worker(ctx, n):
    ctx.search(plans(), check, max_examples=n)


def run(ctx):
    quick = ctx.tier == "quick"
    ctx.parallel(_worker, [500] * 16 if quick else [30000] * 16)
