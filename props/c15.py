"""C15 — host view of the multicast table matches the NCP and never leaks slots.

History-based: a plan is a list of start-up / subscribe / unsubscribe operations, each table
write answered {success, rejection status, no reply -> command timeout}.  The real
bellows.multicast.Multicast drives real EZSP frames into vlib.simncp, whose multicast table
is the model; invariants are evaluated after every operation."""
from __future__ import annotations

import asyncio
import itertools
import types

from hypothesis import strategies as st

from vlib import simncp, vloop
from vlib.run import Result

LEVEL = "exploration"
RULE = (
    "a history = table size 0..4, initial NCP table content (each live group at most once, some slots free - cleared entries may still carry any group id, also one that is live elsewhere), protocol version "
    "from {4, 8, 13, 14}, then up to 12 operations over groups {1..5}: startup(member_of), subscribe(g), unsubscribe(g), "
    "each table write answered ok / rejected with a defined or undefined status / not answered (command timeout). "
    "Exhaustive part: every operation sequence of length <= L (quick 3, thorough 4) over groups {1,2,3} x 3 answers for "
    "sizes 0..3 with up to 3 initial contents; a 'restart' operation (fresh Multicast object re-scanning the table) may occur anywhere, and two or three calls for different groups may be in flight at once. Non-trivial = a rejected or timed-out write is followed by a later subscribe; "
    "distinct by history."
)
ASSUMPTIONS = [
    "the host's report is read from Multicast._multicast / _available (the state named by the property) and confirmed "
    "behaviourally at the end by subscribing fresh groups until refusal",
    "a write that is not answered is NOT applied by the simulated NCP (the 'applied but reply lost' case is outside the quantifier)",
    "table reads are never faulted (the quantifier faults writes only)",
]

# rejection statuses: generic, index, undefined, and the "not found" / "entry erased" codes of both numberings
REJECTS = ["ERR", "INDEX_OUT_OF_RANGE", 0xEE, 0x03, 0xB6, 0x2D]


class McSim(simncp.SimNcp):
    def __init__(self, loop, version, size, table):
        super().__init__(loop, version)
        self.size = size
        self.table = [tuple(x) for x in table]  # (group, endpoint)
        self.answers = []
        self.writes = 0
        self.read_fail = set()  # indices whose entry cannot be read (status error) - the host cannot know what is there

    def cmd_getConfigurationValue(self, configId):
        if configId.name == "CONFIG_MULTICAST_TABLE_SIZE":
            return {"status": "OK", "value": self.size}
        return {"status": "ERROR_INVALID_ID", "value": 0}

    def cmd_getMulticastTableEntry(self, index):
        import bellows.types as t

        if index >= self.size:
            return {"status": "INDEX_OUT_OF_RANGE", "value": t.EmberMulticastTableEntry(multicastId=0, endpoint=0, networkIndex=0)}
        g, ep = self.table[index]
        if index in self.read_fail:
            return {"status": "ERR", "value": t.EmberMulticastTableEntry(multicastId=0, endpoint=0, networkIndex=0)}
        return {"status": "OK", "value": t.EmberMulticastTableEntry(multicastId=g, endpoint=ep, networkIndex=0)}

    def cmd_setMulticastTableEntry(self, index, value):
        self.writes += 1
        ans = self.answers.pop(0) if self.answers else "ok"
        if ans == "timeout":
            return None
        if ans != "ok":
            return {"status": ans[1]}
        if index >= self.size:
            return {"status": "INDEX_OUT_OF_RANGE"}
        self.table[index] = (int(value.multicastId), int(value.endpoint))
        return {"status": "OK"}


def invariants(mc, sim, r, where):
    skip = sim.read_fail  # entries the host could not read are outside its view: not judged, but nothing else may shift
    ncp_groups = {g for i_, (g, ep) in enumerate(sim.table) if ep != 0 and i_ not in skip}
    host_groups = {int(g) for g in mc._multicast}
    if host_groups != ncp_groups:
        r.bad("C15:mirror-differs", f"{where}: host {sorted(host_groups)} NCP {sorted(ncp_groups)} table {sim.table}")
    used = [idx for _, idx in mc._multicast.values()]
    free = set(mc._available)
    if len(set(used)) != len(used) or set(used) & free:
        r.bad("C15:index-used-twice", f"{where}: used {used} free {sorted(free)}")
    if set(used) | free | (skip - set(used) - free) != set(range(sim.size)) or (set(used) | free) & skip:
        r.bad("C15:index-neither-free-nor-used", f"{where}: used {sorted(used)} free {sorted(free)} size {sim.size}")
    for g, (entry, idx) in mc._multicast.items():
        if idx < sim.size and sim.table[idx][0] != int(g):
            r.bad("C15:index-points-to-other-group", f"{where}: host says {int(g)}@{idx}, NCP has {sim.table[idx]}")


async def scenario(loop, plan, r):
    import bellows.types as t
    from bellows.multicast import Multicast

    ezsp, _ = None, None
    import bellows.ezsp as e

    sim = McSim(loop, plan["v"], plan["size"], plan["table"])
    sim.read_fail = set(plan.get("read_fail") or [])
    ezsp = e.EZSP({"path": "/dev/null"})
    sim.attach(ezsp)
    ezsp._switch_protocol_version(plan["v"])
    ezsp.start_ezsp()
    mc = Multicast(ezsp)
    await mc._initialize()
    invariants(mc, sim, r, "after initial scan")
    ep = None
    if plan.get("via") == "endpoint":
        # subscribe / unsubscribe through the coordinator's endpoint object, which keeps zigpy's group membership
        import zigpy.device
        import zigpy.types as zt
        import zigpy.zdo.types as zdo_t
        from bellows.zigbee.device import EZSPEndpoint
        from vlib import zshim

        app = zshim.make_app()
        app._ezsp = ezsp
        app._multicast = mc
        dev = zigpy.device.Device(app, zt.EUI64.convert("00:11:22:33:44:55:66:77"), 0x0000)
        desc = zdo_t.SimpleDescriptor(endpoint=1, profile=260, device_type=5, device_version=0, input_clusters=[], output_clusters=[])
        ep = EZSPEndpoint(dev, 1, desc)
        dev.endpoints[1] = ep
        r.cls("via-endpoint")
    failed_then_sub = False
    had_failure = False
    for n, op in enumerate(plan["ops"]):
        kind = op[0]
        where = f"op {n} {op}"
        free0 = len(mc._available)
        w0 = sim.writes
        if kind == "restart":
            # the host process restarts: a fresh Multicast object scans the table the earlier history left in the NCP
            mc = Multicast(ezsp)
            await mc._initialize()
            r.cls("restart")
            invariants(mc, sim, r, where)
            if r.violations:
                return
            continue
        if kind == "par":
            # two calls for DIFFERENT groups in flight at the same time (e.g. two group memberships being restored)
            subs = op[1]
            sim.answers = [(a if a in ("ok", "timeout") else ["rej", a[1]]) for _, _, a in subs]
            had_fail = any(a != "ok" for _, _, a in subs)

            async def one(k, g):
                try:
                    return await (mc.subscribe(g) if k == "sub" else mc.unsubscribe(g))
                except asyncio.TimeoutError:
                    return "timeout"

            res = await asyncio.gather(*[one(k, g) for k, g, _ in subs], return_exceptions=True)
            for x in res:
                if isinstance(x, Exception):
                    r.bad(f"C15:raises:{type(x).__name__}", f"{where}: {x!r}")
                    return
            sim.answers = []
            r.cls("concurrent-calls")
            if had_fail:
                had_failure = True
            invariants(mc, sim, r, where)
            if r.violations:
                return
            continue
        if kind == "wipe-startup":
            # the NCP rebooted and lost its table; the application starts the multicast layer again on the SAME object
            sim.table = [(0, 0)] * sim.size
            r.cls("table-wiped-then-startup")
            kind = "startup"
        if kind == "startup":
            groups, answers = op[1], op[2]
            sim.answers = [a if a in ("ok", "timeout") else ["rej", a[1]] for a in answers]
            coord = types.SimpleNamespace(endpoints={0: types.SimpleNamespace(member_of={}),
                                                     1: types.SimpleNamespace(member_of={g: None for g in groups})})
            try:
                await mc.startup(coord)
            except asyncio.TimeoutError:
                r.cls("timeout")
                had_failure = True
            sim.answers = []
            invariants(mc, sim, r, where)
            if r.violations:
                return
            continue
        g, ans = op[1], op[2]
        sim.answers = [ans if ans in ("ok", "timeout") else ["rej", ans[1]]]
        was_sub = g in {int(x) for x in mc._multicast}
        ncp_free = sum(1 for _, ep in sim.table if ep == 0)
        status, exc = None, None
        if ep is not None:
            # via the endpoint: a refusal surfaces as ValueError, a lost reply as TimeoutError; membership must follow the NCP
            member0 = set(int(x) for x in ep.member_of)
            if (kind == "sub") == (g in member0):
                continue  # the endpoint answers from its own membership without touching the table: nothing to judge here
            try:
                await (ep.add_to_group(g) if kind == "sub" else ep.remove_from_group(g))
                status = t.sl_Status.OK
            except asyncio.TimeoutError as ex:
                exc = ex
            except ValueError:
                status = t.sl_Status.FAIL
            except Exception as ex:
                r.bad(f"C15:raises:{type(ex).__name__}", f"{where}: {ex!r}")
                return
            sim.answers = []
            member1 = set(int(x) for x in ep.member_of)
            ncp_now = {gg for gg, e_ in sim.table if e_ != 0}
            okc = exc is None and int(status) == 0
            want = (member0 | {g}) if (okc and kind == "sub") else (member0 - {g}) if (okc and kind == "unsub") else member0
            if member1 != want:
                r.bad("C15:endpoint-membership-wrong", f"{where}: endpoint reports {sorted(member1)}, expected {sorted(want)} "
                      f"({'accepted' if okc else 'failed'} call); NCP holds {sorted(ncp_now)}")
                return
            if not member1 <= ncp_now:
                r.bad("C15:endpoint-reports-unprogrammed-group", f"{where}: endpoint {sorted(member1)} NCP {sorted(ncp_now)}")
                return
            if not okc:
                had_failure = True
            invariants(mc, sim, r, where)
            if r.violations:
                return
            continue
        try:
            status = await (mc.subscribe(g) if kind == "sub" else mc.unsubscribe(g))
        except asyncio.TimeoutError as ex:
            exc = ex
        except Exception as ex:
            r.bad(f"C15:raises:{type(ex).__name__}", f"{where}: {ex!r}")
            return
        sim.answers = []
        wrote = sim.writes - w0
        ok = status is not None and int(t.sl_Status.from_ember_status(status)) == 0
        if kind == "sub":
            if had_failure:
                failed_then_sub = True
            if was_sub:
                if not ok or wrote:
                    r.bad("C15:resubscribe-not-idempotent", f"{where}: status {status!r} writes {wrote}")
            elif ncp_free == 0:
                if ok or exc is not None:
                    r.bad("C15:subscribe-without-free-index-succeeds", f"{where}: status {status!r} exc {exc!r}")
                if wrote:
                    r.cls("write-with-full-table")
        failed = exc is not None or not ok
        if failed:
            had_failure = True
            r.cls("timeout" if exc is not None else "rejected")
            if len(mc._available) != free0:
                r.bad(f"C15:slot-leak:{'subscribe' if kind == 'sub' else 'unsubscribe'}:{'timeout' if exc is not None else 'rejected'}",
                      f"{where}: free indices {free0} -> {len(mc._available)}; plan {plan}")
        invariants(mc, sim, r, where)
        if r.violations:
            return
    # behavioural probe: fresh groups can be subscribed exactly free-count times
    ncp_free = sum(1 for i_, (_, ep) in enumerate(sim.table) if ep == 0 and i_ not in sim.read_fail)
    okc = 0
    for k in range(sim.size + 2):
        sim.answers = ["ok"]
        st_ = await mc.subscribe(100 + k)
        if int(t.sl_Status.from_ember_status(st_)) == 0:
            okc += 1
        else:
            break
    if okc != ncp_free:
        r.bad("C15:free-slot-count-wrong", f"NCP had {ncp_free} free entries, host could subscribe {okc} fresh groups; plan {plan}")
    r.nontrivial = failed_then_sub


def check(plan) -> Result:
    r = Result()
    try:
        vloop.run_case(lambda loop: scenario(loop, plan, r), horizon=1e7)
    except vloop.Hang:
        r.bad("C15:hang", f"{plan}")
    r.cls(f"v{plan['v']}", f"size{plan['size']}")
    return r


def replay(plan) -> Result:
    return check(plan)


# --------------------------------------------------------------------- generators

answer = st.one_of(st.just("ok"), st.just("ok"), st.just("timeout"),
                   st.sampled_from(REJECTS).map(lambda c: ["rej", c]))


@st.composite
def plans(draw):
    size = draw(st.integers(0, 4))
    groups = draw(st.lists(st.integers(1, 5), max_size=size, unique=True))
    table = [(g, draw(st.sampled_from([1, 1, 2]))) for g in groups]
    # cleared entries keep whatever group id was last written there (bellows itself clears with endpoint 0 and the old id)
    table += [(draw(st.sampled_from([0, 0, 7, 1, 2, 3, 4, 5])), 0) for _ in range(size - len(table))]
    table = draw(st.permutations(table))
    ops = []
    for _ in range(draw(st.integers(1, 12))):
        kind = draw(st.sampled_from(["sub", "sub", "sub", "unsub", "unsub", "unsub", "startup", "restart", "wipe-startup"]))
        if kind == "restart":
            ops.append(["restart"])
        elif draw(st.integers(0, 5)) == 0:
            gs = draw(st.lists(st.integers(1, 5), min_size=2, max_size=3, unique=True))
            ops.append(["par", [[draw(st.sampled_from(["sub", "sub", "unsub"])), g, draw(answer)] for g in gs]])
        elif kind in ("startup", "wipe-startup"):
            gs = draw(st.lists(st.integers(1, 5), max_size=4, unique=True))
            ops.append([kind, gs, draw(st.lists(answer, max_size=4))])
        else:
            ops.append([kind, draw(st.integers(1, 5)), draw(answer)])
    plan = {"v": draw(st.sampled_from([4, 8, 13, 14])), "size": size, "table": [list(x) for x in table], "ops": ops}
    if size >= 2 and draw(st.integers(0, 5)) == 0:
        # one entry (not the last) cannot be read during the scans; everything else must still line up
        plan["read_fail"] = [draw(st.integers(0, size - 2))]
        plan["ops"] = [o for o in ops if o[0] in ("sub", "unsub", "restart")] or [["sub", 1, "ok"]]
        # a group that sits in the unreadable entry is invisible to the host: keep the operations away from it
        hidden = {plan["table"][i_][0] for i_ in plan["read_fail"]}
        plan["ops"] = [o for o in plan["ops"] if o[0] == "restart" or o[1] not in hidden] or [["restart"]]
    if draw(st.integers(0, 3)) == 0:
        plan["via"] = "endpoint"
        plan["ops"] = [o for o in ops if o[0] in ("sub", "unsub")] or [["sub", 1, "ok"]]
    return plan


def _worker(ctx, n):
    ctx.search(plans(), check, max_examples=n)


SYMS = [[k, g, a] for k in ("sub", "unsub") for g in (1, 2, 3) for a in ("ok", ["rej", "ERR"], "timeout")] + [["restart"]]


def _worker_exh(ctx, job):
    L, firsts, v = job
    inits = []
    for size in range(0, 4):
        inits.append((size, [[0, 0]] * size))
        if size >= 1:
            inits.append((size, [[2, 1]] + [[0, 0]] * (size - 1)))
        if size >= 2:
            inits.append((size, [[2, 0], [2, 1]] + [[0, 0]] * (size - 2)))  # stale id in a cleared entry below the live one
    for size, table in inits:
        for n in range(1, L + 1):
            for first in firsts:
                for rest in itertools.product(range(len(SYMS)), repeat=n - 1):
                    ops = [SYMS[first]] + [SYMS[i] for i in rest]
                    plan = {"v": v, "size": size, "table": table, "ops": ops}
                    ctx.check(plan, check(plan), sample=(n == 3 and first == 2 and rest == (0, 9)))


def run(ctx):
    quick = ctx.tier == "quick"
    L = 3 if quick else 4
    jobs = [(L, [f], v) for f in range(len(SYMS)) for v in ((8,) if quick else (4, 8, 14))]
    ctx.parallel(_worker_exh, jobs)
    ctx.exhaustive[f"all operation sequences up to length {L} over 3 groups x 3 answers + restart, sizes 0..3, up to 3 initial contents"] = True
    ctx.parallel(_worker, [120] * 16 if quick else [3000] * 16)
