"""Stateful network/security back end for vlib.simncp: enough of an EmberZNet NCP for
ControllerApplication.write_network_info() / load_network_info() on every protocol version.

Deliberately dumb: one dict or list per table.  Semantics that are assumptions about the
firmware (listed in C14's evidence):
  * keys given to setInitialSecurityState become current when formNetwork succeeds;
  * the value written to VALUE_NWK_FRAME_COUNTER / VALUE_APS_FRAME_COUNTER is what the network
    key / trust-centre link key record later reports as outgoing frame counter;
  * a coordinator that forms a network is its own trust centre: trustCenterLongAddress = own EUI64;
  * the trust-centre link key record reports partner FF:FF:FF:FF:FF:FF:FF:FF;
  * clearKeyTable empties the link-key table; tokenFactoryReset forgets network, children, counters;
  * leaveNetwork forgets the network, its current keys and its child table, but neither frame counters nor link keys;
  * a reset keeps the stored network but the stack is down until networkInit."""
from __future__ import annotations

from vlib import simncp

FF8 = b"\xff" * 8


class NetSim(simncp.SimNcp):
    def __init__(self, loop, version, *, eui64=bytes.fromhex("0807060504030201"), nv3_eui64=True,
                 mfg_eui64=FF8, key_table_size=12, child_table_size=32, have_token_cmds=True, fw_sizes=None):
        super().__init__(loop, version)
        # fw_sizes=(keys, children): table sizes are CONFIGURATION - the firmware boots with these defaults, the host may
        # raise them while the stack is down, and a reboot forgets what the host configured
        self.fw_sizes = fw_sizes
        if fw_sizes:
            key_table_size, child_table_size = fw_sizes
        self.child_size = child_table_size
        self._parked_keys = []
        self.base_eui64 = bytes(eui64)
        self.nv3 = {} if nv3_eui64 else None       # NV3 token store (None: firmware has no NV3 EUI64 token)
        if nv3_eui64:
            self.nv3[0x0000E12A] = FF8            # CREATOR_STACK_RESTORED_EUI64
        self.mfg_eui64 = bytes(mfg_eui64)          # b"" = RCP (no manufacturing tokens)
        self.have_token_cmds = have_token_cmds
        self.config = {"CONFIG_KEY_TABLE_SIZE": key_table_size, "CONFIG_SECURITY_LEVEL": 5, "CONFIG_ADDRESS_TABLE_SIZE": 4,
                       "CONFIG_MAX_END_DEVICE_CHILDREN": child_table_size}
        self.values = {}
        self.stack_up = False
        self.network = None         # EmberNetworkParameters once formed
        self.initial_sec = None
        self.current_sec = None     # dict(bitmask, preconfiguredKey, networkKey, seq, tc_eui64)
        self.key_table = [None] * key_table_size  # (eui64 bytes, key bytes)
        self.children = {}          # index -> (eui64 bytes, nwk, type)
        self.nwk_fc = 0
        self.aps_fc = 0
        self.recorded_initial = []

    # ------------------------------------------------------------------ helpers
    def eui64(self):
        if self.nv3 is not None and self.nv3.get(0x0000E12A, FF8) != FF8:
            return self.nv3[0x0000E12A]
        if self.mfg_eui64 not in (b"", FF8):
            return self.mfg_eui64
        return self.base_eui64

    def T(self, name):
        import bellows.types as t

        return getattr(t, name)

    def on_reset(self):
        self.stack_up = False
        if self.fw_sizes:
            self.config["CONFIG_KEY_TABLE_SIZE"], self.config["CONFIG_MAX_END_DEVICE_CHILDREN"] = self.fw_sizes
            self._resize_keys(self.fw_sizes[0])
            self.child_size = self.fw_sizes[1]

    def _resize_keys(self, n):
        cur = list(self.key_table) + list(self._parked_keys)
        cur += [None] * max(0, n - len(cur))
        self.key_table, self._parked_keys = cur[:n], cur[n:]

    def status_event(self, code):
        self.callback("stackStatusHandler", {"status": code}, 0.002)

    # ------------------------------------------------------------------ identity / tokens
    def cmd_getEui64(self):
        return {"eui64": self.T("EUI64").deserialize(self.eui64())[0]}

    def cmd_getNodeId(self):
        return {"nodeId": 0x0000}

    def cmd_getMfgToken(self, tokenId):
        n = tokenId.name
        if self.mfg_eui64 == b"":
            return {"tokenData": b""}
        if n == "MFG_CUSTOM_EUI_64":
            return {"tokenData": self.mfg_eui64}
        if n == "MFG_STRING":
            return {"tokenData": b"Verif Labs\xff\xff\xff\xff\xff\xff"}
        if n == "MFG_BOARD_NAME":
            return {"tokenData": b"simboard\x00\xff\xff\xff\xff\xff\xff\xff"}
        return {"tokenData": b"\xff" * 8}

    def cmd_setMfgToken(self, tokenId, tokenData):
        if tokenId.name == "MFG_CUSTOM_EUI_64" and self.mfg_eui64 == FF8:
            self.mfg_eui64 = bytes(tokenData)
            return {"status": "OK"}
        return {"status": "ERR"}

    def cmd_getTokenData(self, token, index):
        if not self.have_token_cmds:
            self.invalid_command(self.raw[-1][1][0])
            return None
        rx = self.cls.COMMANDS["getTokenData"][2]
        st_t = rx.__annotations__["status"] if hasattr(rx, "__annotations__") else None
        val = None if self.nv3 is None else self.nv3.get(int(token))
        import bellows.types as t

        fields = {f.name: f.type for f in rx.fields}
        ST = fields["status"]
        if val is None:
            status = self.status_value(ST, "ERR")
            try:
                obj = rx(status=status, value=t.LVBytes32(b""))
            except Exception:
                obj = rx(status=status)
        else:
            obj = rx(status=self.status_value(ST, "OK"), value=t.LVBytes32(val))
        return {"__struct__": obj}

    def cmd_setTokenData(self, token, index, token_data):
        if not self.have_token_cmds or self.nv3 is None:
            return {"status": "ERR"}
        self.nv3[int(token)] = bytes(token_data)
        return {"status": "OK"}

    # ------------------------------------------------------------------ config / values
    def cmd_getConfigurationValue(self, configId):
        return {"status": "OK", "value": self.config.get(configId.name, 0)}

    def cmd_setConfigurationValue(self, configId, value):
        if self.fw_sizes and configId.name in ("CONFIG_KEY_TABLE_SIZE", "CONFIG_MAX_END_DEVICE_CHILDREN"):
            if self.stack_up:
                return {"status": "ERROR_INVALID_CALL"}
            self.config[configId.name] = int(value)
            if configId.name == "CONFIG_KEY_TABLE_SIZE":
                self._resize_keys(int(value))
            else:
                self.child_size = int(value)
            return {"status": "OK"}
        if configId.name in ("CONFIG_KEY_TABLE_SIZE",):
            return {"status": "OK"}  # table sizes are fixed in this simulator
        self.config[configId.name] = int(value)
        return {"status": "OK"}

    def cmd_getValue(self, valueId):
        n = valueId.name
        if n == "VALUE_VERSION_INFO":
            return {"status": "OK", "value": bytes([0x2A, 0x01, 7, 4, 1, 0])}
        if n == "VALUE_FREE_BUFFERS":
            return {"status": "OK", "value": b"\x40"}
        return {"status": "OK", "value": self.values.get(n, b"\x00")}

    def cmd_setValue(self, valueId, value):
        n = valueId.name
        if n in ("VALUE_NWK_FRAME_COUNTER", "VALUE_APS_FRAME_COUNTER"):
            if self.stack_up:
                return {"status": "ERROR_INVALID_CALL"}
            v = int.from_bytes(bytes(value)[:4], "little")
            if n == "VALUE_NWK_FRAME_COUNTER":
                self.nwk_fc = v
            else:
                self.aps_fc = v
            return {"status": "OK"}
        self.values[n] = bytes(value)
        return {"status": "OK"}

    def cmd_setPolicy(self, policyId, decisionId):
        return {"status": "OK"}

    # ------------------------------------------------------------------ network
    def cmd_networkState(self):
        return {"status": 2 if self.stack_up else 0}

    def _net_init(self):
        if self.network is None:
            return {"status": "NOT_JOINED"}
        self.stack_up = True
        self.status_event("NETWORK_UP")
        return {"status": "OK"}

    def cmd_networkInit(self, **kw):
        return self._net_init()

    def cmd_networkInitExtended(self, **kw):
        return self._net_init()

    def cmd_formNetwork(self, parameters):
        if self.stack_up:
            return {"status": "INVALID_CALL"}
        if self.initial_sec is None:
            return {"status": "ERR"}
        self.network = parameters
        self.stack_up = True
        isc = self.initial_sec
        hashed = int(isc.bitmask) & 0x0084 == 0x0084
        have_tc = bool(int(isc.bitmask) & 0x0040)
        self.current_sec = dict(
            hashed=hashed,
            preconfiguredKey=bytes(isc.preconfiguredKey.serialize()),
            networkKey=bytes(isc.networkKey.serialize()),
            seq=int(isc.networkKeySequenceNumber),
            tc_eui64=self.eui64(),  # the forming coordinator is its own trust centre
            given_tc=bytes(isc.preconfiguredTrustCenterEui64.serialize()) if have_tc else None,
        )
        self.status_event("NETWORK_UP")
        return {"status": "OK"}

    def cmd_leaveNetwork(self):
        if not self.stack_up:
            return {"status": "INVALID_CALL"}
        self.stack_up = False
        self.network = None
        self.current_sec = None
        self.children = {}  # leaving erases the network's neighbour/child tokens (frame counters and link keys stay)
        self.status_event("NETWORK_DOWN")
        return {"status": "OK"}

    def cmd_getNetworkParameters(self):
        import bellows.types as t

        p = self.network
        if p is None:
            p = t.EmberNetworkParameters(extendedPanId=t.ExtendedPanId.convert("00:00:00:00:00:00:00:00"), panId=0xFFFF, radioTxPower=0,
                                         radioChannel=0, joinMethod=0, nwkManagerId=0, nwkUpdateId=0, channels=0)
            return {"status": "NOT_JOINED", "nodeType": 0, "parameters": p}
        return {"status": "OK", "nodeType": 1, "parameters": p}

    # ------------------------------------------------------------------ security
    def cmd_setInitialSecurityState(self, state):
        if self.stack_up:
            return {"status": "INVALID_CALL"}
        self.initial_sec = state
        self.recorded_initial.append(state)
        return {"status": "OK"}

    def cmd_getCurrentSecurityState(self):
        import bellows.types as t

        cs = self.current_sec
        if cs is None:
            return {"status": "NOT_JOINED", "state": t.EmberCurrentSecurityState(bitmask=0, trustCenterLongAddress=t.EUI64.deserialize(b"\x00" * 8)[0])}
        bm = 0x0004 | 0x0010 | (0x0084 if cs["hashed"] else 0)
        return {"status": "OK", "state": t.EmberCurrentSecurityState(bitmask=bm, trustCenterLongAddress=t.EUI64.deserialize(cs["tc_eui64"])[0])}

    def _keystruct(self, ktype):
        import bellows.types as t

        cs = self.current_sec
        if ktype == "network":
            return t.EmberKeyStruct(bitmask=0x0003, type=0x03, key=t.KeyData.deserialize(cs["networkKey"])[0], outgoingFrameCounter=self.nwk_fc,
                                    incomingFrameCounter=0, sequenceNumber=cs["seq"], partnerEUI64=t.EUI64.deserialize(b"\x00" * 8)[0])
        return t.EmberKeyStruct(bitmask=0x0002 | 0x0008 | 0x0010, type=0x01, key=t.KeyData.deserialize(cs["preconfiguredKey"])[0],
                                outgoingFrameCounter=self.aps_fc, incomingFrameCounter=0, sequenceNumber=0,
                                partnerEUI64=t.EUI64.deserialize(FF8)[0])

    def cmd_getKey(self, keyType):
        import bellows.types as t

        zero = t.EmberKeyStruct(bitmask=0, type=0, key=t.KeyData.deserialize(b"\x00" * 16)[0], outgoingFrameCounter=0, incomingFrameCounter=0,
                                sequenceNumber=0, partnerEUI64=t.EUI64.deserialize(b"\x00" * 8)[0])
        if self.current_sec is None:
            return {"status": "NOT_JOINED", "keyStruct": zero}
        n = keyType.name
        if n == "CURRENT_NETWORK_KEY":
            return {"status": "OK", "keyStruct": self._keystruct("network")}
        if n == "TRUST_CENTER_LINK_KEY":
            return {"status": "OK", "keyStruct": self._keystruct("tclk")}
        return {"status": "KEY_INVALID", "keyStruct": zero}

    def cmd_exportKey(self, context):
        import bellows.types as t

        kt = int(context.core_key_type)
        cs = self.current_sec
        if cs is None or kt not in (1, 2):
            key, status = b"\x00" * 16, "NOT_FOUND"
        else:
            key, status = (cs["networkKey"] if kt == 1 else cs["preconfiguredKey"]), "OK"
        return {"status": status, "key": t.KeyData.deserialize(key)[0], "context": context}

    def cmd_getNetworkKeyInfo(self):
        import bellows.types as t

        cs = self.current_sec
        info = t.SecurityManagerNetworkKeyInfo(network_key_set=cs is not None, alternate_network_key_set=False,
                                               network_key_sequence_number=cs["seq"] if cs else 0, alt_network_key_sequence_number=0,
                                               network_key_frame_counter=self.nwk_fc)
        return {"status": "OK", "network_key_info": info}

    # ------------------------------------------------------------------ link keys
    def cmd_clearKeyTable(self):
        self.key_table = [None] * len(self.key_table)
        self._parked_keys = []
        return {"status": "OK"}

    def cmd_tokenFactoryReset(self, **kw):
        self.network = None
        self.current_sec = None
        self.initial_sec = None
        self.children = {}
        self.nwk_fc = self.aps_fc = 0
        self.stack_up = False
        return {}

    refuse_partner = None  # bytes: link keys for this partner are refused by the NCP (e.g. its own / an invalid address)

    def cmd_addOrUpdateKeyTableEntry(self, address, linkKey, keyData):
        a = bytes(address.serialize())
        if a == self.refuse_partner:
            return {"status": 0xB3}  # EMBER_KEY_TABLE_INVALID_ADDRESS
        for i, e in enumerate(self.key_table):
            if e is not None and e[0] == a:
                self.key_table[i] = (a, bytes(keyData.serialize()))
                return {"status": "OK"}
        for i, e in enumerate(self.key_table):
            if e is None:
                self.key_table[i] = (a, bytes(keyData.serialize()))
                return {"status": "OK"}
        return {"status": "TABLE_FULL"}

    def cmd_getKeyTableEntry(self, index):
        import bellows.types as t

        zero = t.EmberKeyStruct(bitmask=0, type=0, key=t.KeyData.deserialize(b"\x00" * 16)[0], outgoingFrameCounter=0, incomingFrameCounter=0,
                                sequenceNumber=0, partnerEUI64=t.EUI64.deserialize(b"\x00" * 8)[0])
        if index >= len(self.key_table):
            return {"status": "INDEX_OUT_OF_RANGE", "keyStruct": zero}
        e = self.key_table[index]
        if e is None:
            return {"status": "NOT_FOUND_LEGACY", "keyStruct": zero}
        ks = t.EmberKeyStruct(bitmask=0x0002 | 0x0004 | 0x0008 | 0x0010, type=0x05, key=t.KeyData.deserialize(e[1])[0], outgoingFrameCounter=0,
                              incomingFrameCounter=0, sequenceNumber=0, partnerEUI64=t.EUI64.deserialize(e[0])[0])
        return {"status": "OK", "keyStruct": ks}

    def cmd_importLinkKey(self, index, address, key):
        if index >= len(self.key_table):
            return {"status": "INDEX_OUT_OF_RANGE"}
        if bytes(address.serialize()) == self.refuse_partner:
            return {"status": 0x21}  # SL_STATUS_INVALID_PARAMETER
        self.key_table[index] = (bytes(address.serialize()), bytes(key.serialize()))
        return {"status": "OK"}

    def cmd_exportLinkKeyByIndex(self, index):
        import bellows.types as t

        e = self.key_table[index] if index < len(self.key_table) else None
        eui = t.EUI64.deserialize(e[0] if e else b"\x00" * 8)[0]
        key = t.KeyData.deserialize(e[1] if e else b"\x00" * 16)[0]
        meta = t.SecurityManagerAPSKeyMetadata(bitmask=0x0008 if e else 0, outgoing_frame_counter=0, incoming_frame_counter=0, ttl_in_seconds=0)
        ctx = t.SecurityManagerContextV13(core_key_type=3, key_index=index, derived_type=0, eui64=eui, multi_network_index=0, flags=0,
                                          psa_key_alg_permission=0)
        status = "OK" if e else "NOT_FOUND"
        return {"status": status, "eui64": eui, "plaintext_key": key, "key_data": meta, "context": ctx}

    def cmd_findKeyTableEntry(self, address, linkKey):
        return {"index": 0xFF}

    # ------------------------------------------------------------------ children / address table
    def cmd_setChildData(self, index, child_data):
        if self.fw_sizes and int(index) >= self.child_size:
            return {"status": "INDEX_OUT_OF_RANGE"}
        self.children[int(index)] = (bytes(child_data.eui64.serialize()), int(child_data.id), int(child_data.type))
        return {"status": "OK"}

    def cmd_getChildData(self, index):
        import bellows.types as t

        rx = self.cls.COMMANDS["getChildData"][2]
        c = self.children.get(int(index))
        if self.fw_sizes and int(index) >= self.child_size:
            c = None
        eui = t.EUI64.deserialize(c[0] if c else b"\x00" * 8)[0]
        status = "OK" if c else "NOT_JOINED"
        if "childId" in rx:
            return {"status": status, "childId": c[1] if c else 0xFFFF, "childEui64": eui, "childType": c[2] if c else 0}
        key = [k for k in rx if k != "status"][0]
        CT = rx[key]
        kw = dict(eui64=eui, type=c[2] if c else 0, id=c[1] if c else 0xFFFF, phy=0, power=0, timeout=0)
        if "timeout_remaining" in [f.name for f in CT.fields]:
            kw["timeout_remaining"] = 0
        return {"status": status, key: CT(**kw)}

    def cmd_getAddressTableRemoteNodeId(self, addressTableIndex):
        return {"nodeId": 0xFFFF}

    def cmd_getAddressTableRemoteEui64(self, addressTableIndex):
        return {"eui64": self.T("EUI64").deserialize(FF8)[0]}

    def cmd_getAddressTableInfo(self, index):
        return {"status": "NOT_FOUND", "nwk": 0xFFFF, "eui64": self.T("EUI64").deserialize(FF8)[0]}
