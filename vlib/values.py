"""Type-directed Hypothesis strategies for every type reachable from an EZSP command schema.

strategy_for(T, last=False) yields pairs (value, reference_bytes): the value is built with
the type's own constructor, the reference bytes are produced HERE from first principles
(little-endian fixed-width integers, length-prefixed byte strings and lists, field
concatenation) so that neither bellows' nor zigpy's serializers are the oracle."""
from __future__ import annotations

import functools
import re

from hypothesis import strategies as st


def _int_bytes(v: int, size: int, signed: bool) -> bytes:
    return int(v).to_bytes(size, "little", signed=signed)


def _kind(T):
    import zigpy.types as zt

    names = {c.__name__ for c in T.__mro__}
    if isinstance(T, type) and issubclass(T, zt.Struct):
        return "struct"
    if "_EnumMixin" in names or "enum_flag_factory" in names:
        return "enum"
    if "_BitmapMixin" in names:
        return "bitmap"
    if "FixedIntType" in names:
        return "int"
    if issubclass(T, zt.LVBytes):
        return "lvbytes"
    if issubclass(T, zt.LVList):
        return "lvlist"
    if issubclass(T, zt.FixedList):
        return "fixedlist"
    if issubclass(T, zt.List):
        return "list"
    if issubclass(T, bytes):
        return "bytes"
    raise TypeError(f"no strategy for {T!r} ({[c.__name__ for c in T.__mro__]})")


_INT_NAME = re.compile(r"^(u?)int(\d+)(_t|s)$")


def int_props(T):
    """(size in bytes, signed) from the NAME of the fixed-width base class in the MRO
    (uint16_t -> 2 bytes unsigned, int8s -> 1 byte signed), not from the class attributes
    the serializer itself uses."""
    for c in T.__mro__:
        m = _INT_NAME.match(c.__name__)
        if m:
            return int(m.group(2)) // 8, (m.group(1) == "" and m.group(3) == "s")
    raise TypeError(f"no fixed-width base in {[c.__name__ for c in T.__mro__]}")


def lv_prefix(T):
    for c in T.__mro__:
        if c.__name__ == "LVBytes32":
            return 4
        if c.__name__ == "LVBytes":
            return 1
    raise TypeError(T)


def shape(T) -> str:
    """Wire shape of a type as a string (used by the pinned-shape table of C07)."""
    k = _kind(T)
    if k in ("int", "enum", "bitmap"):
        size, signed = int_props(T)
        return ("s" if signed else "u") + str(size * 8)
    if k == "lvbytes":
        return "lv%d" % lv_prefix(T)
    if k == "bytes":
        return "bytes*"
    if k == "fixedlist":
        return "%sx%d" % (shape(T._item_type), T._length)
    if k == "lvlist":
        return "lv[%s]" % shape(T._item_type)
    if k == "list":
        return "*%s" % shape(T._item_type)
    # "?" optional field, "!" field present only when a predicate over the earlier fields holds
    return "(" + ",".join(("?" if f.optional else "") + ("!" if f.requires is not None else "") + shape(f.type) for f in T.fields) + ")"


def schema_shape(s):
    if isinstance(s, dict):
        return [shape(T) for T in s.values()]
    if isinstance(s, type):
        return shape(s)
    return repr(s)


@functools.lru_cache(maxsize=None)
def _strategy(T, last):
    k = _kind(T)
    if k in ("int", "enum", "bitmap"):
        size, signed = int_props(T)
        lo, hi = (-(1 << (8 * size - 1)), (1 << (8 * size - 1)) - 1) if signed else (0, (1 << (8 * size)) - 1)
        pool = [lo, hi, 0, 1, hi - 1] + ([-1, lo + 1] if signed else [])
        pool = [p for p in pool if lo <= p <= hi]
        parts = [st.sampled_from(pool), st.integers(lo, hi)]
        if k == "enum":
            members = [int(m) for m in T]
            if members:
                parts.append(st.sampled_from(members))
                parts.append(st.sampled_from(members))
        return st.one_of(parts).map(lambda v: (T(v), _int_bytes(v, size, signed)))
    if k == "lvbytes":
        plen = lv_prefix(T)
        mx = 100 if plen == 1 else 90
        return st.one_of(st.just(b""), st.binary(max_size=mx), st.binary(min_size=mx, max_size=mx),
                         st.sampled_from([b"\x00", b"\xff" * 16, b"\x7e\x7d\x11\x13\x18\x1a"])).map(
            lambda b: (T(b), len(b).to_bytes(plen, "little") + b))
    if k == "bytes":
        return st.binary(max_size=60).map(lambda b: (T(b), b))
    if k == "fixedlist":
        item = _strategy(T._item_type, False)
        n = T._length
        return st.lists(item, min_size=n, max_size=n).map(
            lambda xs: (T([x for x, _ in xs]), b"".join(b for _, b in xs)))
    if k == "lvlist":
        item = _strategy(T._item_type, False)
        lsize = 1  # EZSP list lengths are one byte
        return st.lists(item, max_size=12).map(
            lambda xs: (T([x for x, _ in xs]), len(xs).to_bytes(lsize, "little") + b"".join(b for _, b in xs)))
    if k == "list":
        item = _strategy(T._item_type, False)
        return st.lists(item, max_size=20).map(
            lambda xs: (T([x for x, _ in xs]), b"".join(b for _, b in xs)))
    if k == "struct":
        return _struct_strategy(T, last)
    raise TypeError(T)


def _struct_strategy(T, last):
    fields = list(T.fields)

    @st.composite
    def build(draw):
        kwargs = {}
        out = b""
        absent_from = None
        if last and fields and fields[-1].optional and draw(st.booleans()):
            absent_from = len(fields) - 1
        for i, f in enumerate(fields):
            if absent_from is not None and i >= absent_from:
                continue
            if f.requires is not None:
                probe = T(**kwargs)
                try:
                    ok = bool(f.requires(probe))
                except Exception:
                    ok = True
                if not ok:
                    continue
            v, b = draw(_strategy(f.type, False))
            kwargs[f.name] = v
            out += b
        return T(**kwargs), out

    return build()


def strategy_for(T, last=False):
    return _strategy(T, bool(last))


def is_greedy(T):
    return _kind(T) in ("list", "bytes")


class _Short(Exception):
    pass


class _Unknown(Exception):
    pass


def _consume(T, data: bytes) -> bytes:
    """Strip the bytes one value of type T occupies, judged by wire shape alone (widths from type NAMES, see int_props).
    Raises _Short when the data cannot hold it, _Unknown when the type decodes by rules of its own."""
    k = _kind(T)
    if k in ("int", "enum", "bitmap"):
        size, _ = int_props(T)
        if len(data) < size:
            raise _Short()
        return data[size:]
    if k == "lvbytes":
        plen = lv_prefix(T)
        if len(data) < plen:
            raise _Short()
        n = int.from_bytes(data[:plen], "little")
        if len(data) < plen + n:
            raise _Short()
        return data[plen + n:]
    if k == "bytes":
        return b""
    if k == "fixedlist":
        for _ in range(T._length):
            data = _consume(T._item_type, data)
        return data
    if k == "lvlist":
        if len(data) < 1:
            raise _Short()
        n, data = data[0], data[1:]
        for _ in range(n):
            data = _consume(T._item_type, data)
        return data
    if k == "list":
        while data:
            data = _consume(T._item_type, data)
        return data
    # struct
    if T.__name__ == "EmberKeyStruct":
        # 36 bytes (bitmask 2, type 1, key 16, two counters 4+4, sequence 1, partner 8); firmware that keeps keys in secure
        # storage sends a 4-byte id instead of the key, i.e. exactly 24 bytes - nothing in between is a key structure
        if len(data) >= 36:
            return data[36:]
        if len(data) == 24:
            return b""
        raise _Short()
    if "deserialize" in T.__dict__ or any(f.requires is not None for f in T.fields):
        raise _Unknown()
    for f in T.fields:
        if not data and f.optional:
            break
        data = _consume(f.type, data)
    return data


def fits(schema, payload: bytes):
    """True / False: the payload is long enough / too short for the schema, by wire shape alone; None: cannot tell."""
    try:
        data = bytes(payload)
        if isinstance(schema, dict):
            for T in schema.values():
                data = _consume(T, data)
        else:
            _consume(schema, data)
        return True
    except _Short:
        return False
    except (_Unknown, TypeError):
        return None


def schema_strategy(schema):
    """dict schema -> strategy of ([values...], bytes); struct schema -> (struct, bytes)."""
    if isinstance(schema, dict):
        items = list(schema.items())
        strats = [strategy_for(T, last=(i == len(items) - 1)) for i, (_, T) in enumerate(items)]
        return st.tuples(*strats).map(lambda xs: ([x for x, _ in xs], b"".join(b for _, b in xs)))
    return strategy_for(schema, last=True)


def trivial(values) -> bool:
    def z(v):
        if isinstance(v, (bytes, list, tuple)):
            return all(z(x) for x in v) if not isinstance(v, bytes) else not v.strip(b"\x00")
        if isinstance(v, int):
            return int(v) == 0
        if hasattr(v, "fields"):
            return all(z(getattr(v, f.name)) for f in v.fields if getattr(v, f.name) is not None)
        return False
    return z(values if isinstance(values, (list, tuple)) else [values])
