"""Compatibility shim: /venv carries zigpy 2.2 where `zigpy.util.Requests` no longer exists,
while this bellows snapshot still uses it for ControllerApplication._pending.

This is the class as zigpy <= 0.7x shipped it (a dict of pending requests with a `new()`
context manager that owns a result future and removes the entry on exit).  It is installed
from the harness only; the repository is not modified.  Trusted base of C12-C14, C17, C19."""
from __future__ import annotations

import asyncio
import contextlib


class Request:
    def __init__(self, pending, sequence):
        self._pending = pending
        self._result = asyncio.get_running_loop().create_future()
        self._sequence = sequence

    @property
    def result(self):
        return self._result

    @property
    def sequence(self):
        return self._sequence

    def __enter__(self):
        self._pending[self.sequence] = self
        return self

    def __exit__(self, exc_type, exc_value, exc_traceback):
        if not self.result.done():
            self.result.cancel()
        self._pending.pop(self.sequence)
        return False


class Requests(dict):
    def new(self, sequence):
        if sequence in self:
            raise ValueError(f"Duplicate sequence {sequence}")
        return Request(self, sequence)


def install():
    import zigpy.util

    if not hasattr(zigpy.util, "Requests"):
        zigpy.util.Requests = Requests


def make_app(extra_config=None):
    """ControllerApplication (not connected).  Must be called inside a running loop."""
    install()
    import bellows.zigbee.application as app_mod

    cfg = {
        "device": {"path": "/dev/null", "baudrate": 115200},
        "database_path": None,
        "use_thread": False,
    }
    if extra_config:
        cfg.update(extra_config)
    return app_mod.ControllerApplication(cfg)
