"""Runner: tiers, seeds, sharding, failure bucketing, known findings, evidence, replay.

Usage (via ./check):  python -m vlib.run C07 quick|thorough
                      python -m vlib.run C07 --replay replays/C07/<sha>.json

Exit 0: property held on everything explored (KNOWN-FINDING lines allowed)
Exit 1: `VIOLATION property=<id> replay=<path>` printed
Exit 2: harness error (never prints VIOLATION)
"""
from __future__ import annotations

import collections
import hashlib
import importlib
import json
import multiprocessing as mp
import os
import sys
import time
import traceback

ROOT = os.path.dirname(os.path.dirname(os.path.abspath(__file__)))
NPROC = int(os.environ.get("VERIF_NPROC", "16"))


class HarnessError(Exception):
    pass


def jhash(obj) -> int:
    s = json.dumps(obj, sort_keys=True, separators=(",", ":"), default=str)
    return int.from_bytes(hashlib.sha1(s.encode()).digest()[:8], "big")


class Result:
    """Outcome of one evaluated case."""

    __slots__ = ("violations", "nontrivial", "classes", "note", "key")

    def __init__(self, violations=None, nontrivial=False, classes=(), note=None, key=None):
        self.key = key  # distinctness key (defaults to the whole plan)
        self.violations = list(violations or [])  # [(signature, detail)]
        self.nontrivial = nontrivial
        self.classes = list(classes)
        self.note = note

    def bad(self, sig, detail=""):
        self.violations.append((sig, str(detail)[:2000]))

    def cls(self, *names):
        self.classes.extend(names)


def load_known(prop_id):
    path = os.path.join(ROOT, "known_findings.json")
    known, fixed = {}, {}
    if os.path.exists(path):
        for e in json.load(open(path)):
            if e.get("property") != prop_id:
                continue
            if e.get("status") == "known":
                known[e["signature"]] = e
            else:
                fixed[e["signature"]] = e
    return known, fixed


class Ctx:
    """Accumulates coverage and violations for one run (or one shard of it)."""

    MAX_SAMPLES = 6

    def __init__(self, prop_id, tier, seed, known=None):
        self.prop_id = prop_id
        self.tier = tier
        self.seed = seed
        self.known = known if known is not None else load_known(prop_id)[0]
        self.evaluations = 0
        self.nontrivial = set()
        self.classes = collections.Counter()
        self.samples = {}  # hash -> plan (smallest hashes kept)
        self.violations = {}  # sig -> (plan, detail)
        self.known_hits = collections.Counter()
        self.notes = []
        self.exhaustive = {}
        self.extra = {}

    # -- recording ------------------------------------------------------
    def record(self, plan, res: Result, *, sample=True):
        """Record an evaluated case. Returns list of *unknown* violations."""
        self.evaluations += 1
        for c in res.classes:
            self.classes[c] += 1
        if res.nontrivial:
            h = jhash(plan if res.key is None else res.key)
            if h not in self.nontrivial:
                self.nontrivial.add(h)
                if sample:
                    self._sample(h, plan)
        unknown = []
        for sig, detail in res.violations:
            if sig in self.known:
                self.known_hits[sig] += 1
            else:
                unknown.append((sig, detail))
        return unknown

    def count(self, n=1, nontrivial_keys=(), classes=()):
        """Bulk accounting for cheap enumerated cases."""
        self.evaluations += n
        for k in nontrivial_keys:
            self.nontrivial.add(k if isinstance(k, int) else jhash(k))
        for c in classes:
            self.classes[c] += 1

    def _sample(self, h, plan):
        if len(self.samples) < self.MAX_SAMPLES:
            self.samples[h] = plan
        else:
            worst = max(self.samples)
            if h < worst:
                del self.samples[worst]
                self.samples[h] = plan

    def add_sample(self, plan):
        self._sample(jhash(plan), plan)

    def violation(self, sig, plan, detail=""):
        if sig in self.known:
            self.known_hits[sig] += 1
            return
        if sig not in self.violations:
            self.violations[sig] = (plan, str(detail)[:4000])

    def check(self, plan, res: Result, **kw):
        """record + register unknown violations (for enumerations)."""
        for sig, detail in self.record(plan, res, **kw):
            self.violation(sig, plan, detail)

    # -- hypothesis -----------------------------------------------------
    def search(self, strategy, fn, *, max_examples, seed=None, shrink=None):
        """Hypothesis search: fn(plan) -> Result.  Unknown violations make the
        example fail so Hypothesis shrinks toward it; the shrunk plan is kept."""
        import hypothesis
        from hypothesis import HealthCheck, Phase, given, settings

        seed = self.seed if seed is None else seed
        last = {}

        def body(plan):
            res = fn(plan)
            unknown = self.record(plan, res)
            if unknown:
                last["plan"] = plan
                last["unknown"] = unknown
                raise AssertionError(unknown[0][0])

        phases = [Phase.generate, Phase.shrink]
        if shrink is None:
            shrink = True
        if not shrink:
            phases = [Phase.generate]
        st = settings(
            max_examples=max_examples,
            database=None,
            deadline=None,
            derandomize=False,
            report_multiple_bugs=False,
            phases=phases,
            suppress_health_check=[
                HealthCheck.too_slow,
                HealthCheck.data_too_large,
                HealthCheck.large_base_example,
            ],
            verbosity=hypothesis.Verbosity.quiet,
        )
        test = hypothesis.seed(seed)(st(given(strategy)(body)))
        try:
            test()
        except AssertionError:
            if not last:
                raise
            plan = last["plan"]
            for sig, detail in last["unknown"]:
                self.violation(sig, plan, detail)
        except hypothesis.errors.FailedHealthCheck as e:
            raise HarnessError(f"generator health check failed: {e}")
        except hypothesis.errors.Flaky:
            # Hypothesis re-ran the failing example and it passed (real threads: schedule-dependent).  The oracle did see
            # the violation on a real run of the real code, so it is reported, marked as not reproducing at once.
            if not last:
                raise
            for sig, detail in last["unknown"]:
                self.violation(sig, last["plan"], "[did not reproduce on an immediate re-run] " + str(detail))

    # -- sharding -------------------------------------------------------
    def fork(self, shard):
        c = Ctx(self.prop_id, self.tier, self.seed * 1000 + shard, self.known)
        return c

    def merge(self, other_state):
        o = other_state
        self.evaluations += o["evaluations"]
        self.nontrivial |= o["nontrivial"]
        self.classes.update(o["classes"])
        for h, p in o["samples"].items():
            self._sample(h, p)
        for sig, v in o["violations"].items():
            self.violations.setdefault(sig, v)
        self.known_hits.update(o["known_hits"])
        self.notes.extend(o["notes"])
        for k, v in o["extra"].items():
            if isinstance(v, (int, float)) and isinstance(self.extra.get(k, 0), (int, float)):
                self.extra[k] = self.extra.get(k, 0) + v
            else:
                self.extra[k] = v

    def state(self):
        return dict(
            evaluations=self.evaluations,
            nontrivial=self.nontrivial,
            classes=dict(self.classes),
            samples=self.samples,
            violations=self.violations,
            known_hits=dict(self.known_hits),
            notes=self.notes,
            extra=self.extra,
        )

    def parallel(self, worker, jobs, nproc=None):
        """Run worker(ctx_shard, job) for every job over a fork pool; merge."""
        nproc = min(nproc or NPROC, len(jobs)) or 1
        if nproc == 1 or os.environ.get("VERIF_SERIAL"):
            for i, job in enumerate(jobs):
                c = self.fork(i)
                worker(c, job)
                self.merge(c.state())
            return
        mpctx = mp.get_context("fork")
        args = [(self.prop_id, self.tier, self.seed, i, self.known, worker, job)
                for i, job in enumerate(jobs)]
        with mpctx.Pool(nproc) as pool:
            for st in pool.imap_unordered(_shard_entry, args):
                if "error" in st:
                    raise HarnessError("worker failed:\n" + st["error"])
                self.merge(st)


def _logging_for_shard(i):
    """Every fourth shard runs with debug logging switched ON (into a null handler): what the code under test does must not
    depend on the log level, and arguments of log calls are evaluated whatever the level."""
    import logging

    if i % 4 == 3 and not os.environ.get("VERIF_NO_DEBUG_SHARDS"):
        logging.disable(logging.NOTSET)
        root = logging.getLogger()
        root.handlers = [logging.NullHandler()]
        root.setLevel(logging.DEBUG)
        for name in ("bellows", "bellows.ash", "bellows.uart", "bellows.ezsp", "bellows.ezsp.protocol", "bellows.zigbee.application",
                     "bellows.multicast", "bellows.thread", "bellows.types.named"):
            logging.getLogger(name).setLevel(logging.DEBUG)
        logging.getLogger("asyncio").setLevel(logging.CRITICAL)
        logging.getLogger("hypothesis").setLevel(logging.CRITICAL)
    else:
        logging.disable(logging.CRITICAL)


def _shard_entry(a):
    prop_id, tier, seed, i, known, worker, job = a
    _logging_for_shard(i)
    try:
        c = Ctx(prop_id, tier, seed * 1000 + i, known)
        worker(c, job)
        return c.state()
    except HarnessError as e:
        return {"error": "HarnessError: " + str(e)}
    except BaseException:
        return {"error": traceback.format_exc()}


# ----------------------------------------------------------------------

def write_replay(prop_id, sig, plan, detail):
    d = os.path.join(os.environ.get("VERIF_FOUND_DIR") or os.path.join(ROOT, "replays"), prop_id, "found")
    os.makedirs(d, exist_ok=True)
    body = {"property": prop_id, "signature": sig, "detail": detail, "plan": plan}
    name = hashlib.sha1(json.dumps(body, sort_keys=True, default=str).encode()).hexdigest()[:16]
    path = os.path.join(d, name + ".json")
    with open(path, "w") as f:
        json.dump(body, f, indent=1, sort_keys=True, default=str)
    return os.path.relpath(path, ROOT) if path.startswith(ROOT) else path


def replay_tier(mod, ctx):
    """Run every committed replay plan through mod.replay (no Hypothesis)."""
    d = os.path.join(ROOT, "replays", ctx.prop_id)
    n = 0
    if not os.path.isdir(d):
        return 0
    for name in sorted(os.listdir(d)):
        if not name.endswith(".json"):
            continue
        body = json.load(open(os.path.join(d, name)))
        res = mod.replay(body["plan"])
        ctx.classes["replay_tier"] += 1
        ctx.check(body["plan"], res, sample=False)
        n += 1
    return n


def write_evidence(mod, ctx, wall, n_viol):
    cov = {
        "evaluations": ctx.evaluations,
        "distinct_nontrivial": len(ctx.nontrivial),
        "rule": mod.RULE,
        "samples": [ctx.samples[h] for h in sorted(ctx.samples)]
        or [v[0] for v in list(ctx.violations.values())[:3]],
        "classes": dict(sorted(ctx.classes.items())),
        "known_findings_hit": dict(ctx.known_hits),
    }
    if ctx.exhaustive:
        if getattr(mod, "EXHAUSTIVE", False):
            cov["exhaustive"] = all(ctx.exhaustive.values())
        cov["exhaustive_parts"] = ctx.exhaustive
    cov.update(ctx.extra)
    if ctx.notes:
        cov["notes"] = ctx.notes[:50]
    ev = {
        "property_id": ctx.prop_id,
        "tier": ctx.tier,
        "seed": ctx.seed,
        "level": mod.LEVEL,
        "coverage": cov,
        "assumptions": list(getattr(mod, "ASSUMPTIONS", [])),
        "wall_s": round(wall, 2),
        "violations": n_viol,
    }
    try:
        import jsonschema

        schema = json.load(open("/root/.vp/EVIDENCE.schema.json"))
        jsonschema.validate(ev, schema)
    except ImportError:
        pass
    except FileNotFoundError:
        pass
    except Exception as e:  # schema violation is a harness error
        raise HarnessError(f"evidence does not validate: {e}")
    evdir = os.environ.get("VERIF_EVIDENCE_DIR") or os.path.join(ROOT, "evidence")
    os.makedirs(evdir, exist_ok=True)
    with open(os.path.join(evdir, ctx.prop_id + ".json"), "w") as f:
        json.dump(ev, f, indent=1, default=str)


def _arm_wall_guard(prop_id, tier):
    """A check must never hang: after VERIF_MAX_WALL seconds the run is declared a harness
    error (exit 2, never a VIOLATION)."""
    import signal

    limit = int(os.environ.get("VERIF_MAX_WALL", "900" if tier == "quick" else "14400"))

    def on_alarm(signum, frame):
        print(f"HARNESS-ERROR {prop_id}: wall-clock guard of {limit}s hit (inconclusive)", file=sys.stderr)
        sys.stderr.flush()
        try:
            for ch in mp.active_children():
                ch.terminate()
        finally:
            os._exit(2)

    signal.signal(signal.SIGALRM, on_alarm)
    signal.alarm(limit)


def main(argv):
    if len(argv) < 2:
        print("usage: check <ID> quick|thorough | check <ID> --replay FILE", file=sys.stderr)
        return 2
    prop_id = argv[0].upper()
    seed = int(os.environ.get("VERIF_SEED", "1") or "1")
    t0 = time.time()
    try:
        import logging

        logging.disable(logging.CRITICAL)
        mod = importlib.import_module("props." + prop_id.lower())
        known, fixed = load_known(prop_id)

        if argv[1] == "--replay":
            body = json.load(open(argv[2]))
            plan = body["plan"] if isinstance(body, dict) and "plan" in body else body
            res = mod.replay(plan)
            rc = 0
            for sig, detail in res.violations:
                if sig in known:
                    print(f"KNOWN-FINDING: property={prop_id} {known[sig]['what']} [{sig}]")
                else:
                    print(f"VIOLATION property={prop_id} replay={argv[2]}")
                    print(f"  signature: {sig}\n  detail: {detail}")
                    rc = 1
            if not res.violations:
                print(f"replay ok: property={prop_id} no violation")
            return rc

        tier = argv[1]
        if tier not in ("quick", "thorough"):
            tier = os.environ.get("VERIF_TIER", "quick")
        _arm_wall_guard(prop_id, tier)
        ctx = Ctx(prop_id, tier, seed, known)
        replay_tier(mod, ctx)
        mod.run(ctx)
        wall = time.time() - t0
        try:
            write_evidence(mod, ctx, wall, len(ctx.violations))
        except HarnessError:
            if not ctx.violations:
                raise
        for sig, n in sorted(ctx.known_hits.items()):
            print(f"KNOWN-FINDING: property={prop_id} {known[sig]['what']} [{sig}] ({n} cases)")
        rc = 0
        for sig, (plan, detail) in sorted(ctx.violations.items()):
            path = write_replay(prop_id, sig, plan, detail)
            print(f"VIOLATION property={prop_id} replay={path}")
            print(f"  signature: {sig}\n  detail: {detail[:600]}")
            rc = 1
        print(
            f"{prop_id} {tier} seed={seed}: {ctx.evaluations} cases, "
            f"{len(ctx.nontrivial)} distinct non-trivial, "
            f"{len(ctx.violations)} violations, {wall:.1f}s"
        )
        return rc
    except HarnessError as e:
        print(f"HARNESS-ERROR {prop_id}: {e}", file=sys.stderr)
        return 2
    except Exception:
        print(f"HARNESS-ERROR {prop_id}:\n{traceback.format_exc()}", file=sys.stderr)
        return 2


if __name__ == "__main__":
    sys.exit(main(sys.argv[1:]))
