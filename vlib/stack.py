"""Full-stack harness: EZSP.connect(use_thread=False) -> bellows.uart.Gateway -> bellows.ash
.AshProtocol over a fake transport and the faulty line, against an NCP made of
vlib.refash.RefNcp (ASH) + a framing-aware EZSP front end + vlib.simncp command handlers.

Nothing in /repo is edited: zigpy.serial.create_serial_connection is replaced at run time
by a function that wires the protocol to the in-memory line."""
from __future__ import annotations

from vlib import refash, refezsp, simncp
from vlib.ashh import FakeTransport
from vlib.line import Line


class WireNcp(simncp.SimNcp):
    """SimNcp whose frames travel over ASH, with version negotiation state.

    * until negotiated only the legacy 4-byte `version` query is understood and answered in
      the legacy layout with the NCP's own version V;
    * then only frames in V's layout are understood; the first must be version(desired=V);
    * an ASH reset forgets the negotiation.
    Frames that are not understood are ignored (no reply): a host that frames wrongly times out."""

    def __init__(self, loop, version):
        super().__init__(loop, version)
        self.ash = None
        self.negotiated = False
        self.legacy_query_seen = False
        self.requests = []  # (time, layout it parsed under, name or None, raw)
        self.current = {}
        self.sets = []

    # responses go out through ASH
    def _deliver(self, data):
        if self.ash is not None and not self.ash.failed:
            self.ash.send(data).add_done_callback(lambda f: f.exception())

    def on_ash_reset(self):
        self.negotiated = False
        self.legacy_query_seen = False

    def on_data(self, payload):
        payload = bytes(payload)
        now = self.loop.time()
        V = self.version
        lay = refezsp.layout(self.table_version)
        if not self.negotiated:
            # legacy version query: [seq, fc, 0x00, desired]
            if len(payload) == 4 and payload[2] == 0x00 and payload[1] & 0x80 == 0:
                self.requests.append((now, "legacy", "version", payload))
                self.legacy_query_seen = True
                if lay == "legacy" and payload[3] == (V & 0xFF):
                    # the version is set only by a version command that names the NCP's own version (UG100: until then
                    # every other command is refused with ERROR_VERSION_NOT_SET; here: ignored)
                    self.negotiated = True
                resp = bytes([payload[0], 0x80, 0x00, V & 0xFF, 0x02, 0x23, 0x71])
                self.last_resp_seq = payload[0]
                self.loop.call_later(self.delay, self._deliver, resp)
                return
            if len(payload) == 3 and payload[1] == 0x00 and payload[2] == 0x05 and lay != "legacy":
                # a legacy-framed nop before the negotiation is complete: correctly framed for that moment, just not
                # something this NCP answers yet
                self.requests.append((now, "legacy-premature", "nop", payload))
                self.ignored.append(payload)
                return
            p = refezsp.parse(self.table_version, payload)
            if (self.legacy_query_seen and p is not None and lay != "legacy" and p[2] == 0x0000
                    and len(p[3]) == 1 and p[3][0] == (V & 0xFF)):
                self.negotiated = True
                self.requests.append((now, lay, "version", payload))
                self.raw.append((now, payload))
                self._handle(payload)
                return
            self.requests.append((now, None, None, payload))
            self.ignored.append(payload)
            return
        p = refezsp.parse(self.table_version, payload)
        if p is None or p[2] not in self.by_id:
            self.requests.append((now, None, None, payload))
            self.ignored.append(payload)
            return
        self.requests.append((now, lay, self.by_id[p[2]][0], payload))
        self.raw.append((now, payload))
        self._handle(payload)

    # configuration store (enough for write_config)
    def cmd_getConfigurationValue(self, configId):
        cur = self.current.get(configId.name, 0)
        if cur is None:
            return {"status": "ERROR_INVALID_ID", "value": 0}
        return {"status": "OK", "value": cur}

    def cmd_setConfigurationValue(self, configId, value):
        self.sets.append((configId.name, int(value)))
        self.current[configId.name] = int(value)
        return {"status": "OK"}

    def cmd_getValue(self, valueId):
        return {"status": "OK", "value": b"\x01"}

    def cmd_setValue(self, valueId, value):
        self.sets.append((valueId.name, bytes(value)))
        return {"status": "OK"}

    def cmd_networkState(self):
        return {"status": 0}

    def cmd_readCounters(self):
        return {"values": [7, 0, 3]}


class Stack:
    """Owns the line, the NCP and the patched serial factory for one scenario."""

    def __init__(self, loop, version, *, window=1, fh=None, fn=None, fg=None, ncp_cls=WireNcp):
        self.loop = loop
        self.line = Line(loop, fh, fn, fg)
        self.ncp = ncp_cls(loop, version)
        self.transport = None
        self.proto = None
        self.host_writes = []  # (time, bytes)
        self.rx_raised = []  # (time, repr) exceptions that escaped the host's data_received()

        def ncp_write(data):
            self.line.n2h.write(data)

        self.ash = refash.RefNcp(loop, ncp_write, self.ncp.on_data, window=window)
        self.ncp.ash = self.ash
        orig_frame = self.ash._frame

        def frame_hook(stuffed):
            before = self.ash.resets
            orig_frame(stuffed)
            if self.ash.resets != before:
                self.ncp.on_ash_reset()

        self.ash._frame = frame_hook
        self.line.h2n.sink = self.ash.feed

    def install(self):
        import zigpy.serial

        stack = self
        self._orig = zigpy.serial.create_serial_connection

        async def fake_create(loop, protocol_factory, url=None, **kw):
            proto = protocol_factory()
            tr = FakeTransport(loop, sink=stack._host_write)
            tr.protocol = proto
            stack.transport, stack.proto = tr, proto
            stack.line.n2h.sink = stack._to_host
            loop.call_soon(proto.connection_made, tr)
            return tr, proto

        zigpy.serial.create_serial_connection = fake_create
        return self

    def uninstall(self):
        import zigpy.serial

        zigpy.serial.create_serial_connection = self._orig

    def _host_write(self, data):
        self.host_writes.append((self.loop.time(), bytes(data)))
        self.line.h2n.write(data)

    def _to_host(self, data):
        if self.transport is not None and not self.transport.closed and self.proto is not None:
            try:
                self.proto.data_received(data)
            except Exception as ex:  # a real transport would log it and close the connection
                self.rx_raised.append((self.loop.time(), repr(ex)))

    def spontaneous_rstack(self, code=refash.RESET_SOFTWARE):
        """The NCP boots: it resets its own ASH/EZSP state and announces it."""
        self.ash._disarm()
        self.ash._reset_state()
        self.ash.failed = False
        self.ncp.on_ash_reset()
        self.ash._out(refash.enc_rstack(code), cancel=True)

    def host_frames(self, start=0):
        out = []
        for tm, d in self.host_writes[start:]:
            for f in refash.split_wire(d):
                out.append((tm, f, d))
        return out


def make_config(path="/dev/ttyUSB0"):
    return {"path": path, "baudrate": 115200, "flow_control": None}
