"""Self-tests of the harness's own references (run by setup.sh). Exit non-zero on failure."""
import sys


def main():
    from vlib import refash

    refash.selftest()
    print("refash self-test ok")
    return 0


if __name__ == "__main__":
    sys.exit(main())
