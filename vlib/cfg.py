"""Configured values the property statements refer to by name ("the command timeout", "the configured number of
attempts", "the tolerated maximum", "the reset timeout", "the operation timeout"): read from the tree under test, so that a
maintainer who re-tunes one of them does not trip an oracle that had the old number baked in.  Values fixed by the ASH
specification (0.4 s / 3.2 s acknowledgement-timeout limits) are NOT read from the tree."""
from __future__ import annotations

import importlib


def tree_const(module: str, name: str, default):
    try:
        v = getattr(importlib.import_module(module), name)
        v = type(default)(v)
        if v != v or v < 0:  # NaN / negative: not a configuration, let the default judge
            return default
        return v
    except Exception:
        return default


def ash_attempts() -> int:
    return tree_const("bellows.ash", "ACK_TIMEOUTS", 5)


def cmd_timeout() -> float:
    return tree_const("bellows.ezsp.protocol", "EZSP_CMD_TIMEOUT", 10.0)


def reset_timeout() -> float:
    return tree_const("bellows.uart", "RESET_TIMEOUT", 5.0)


def net_ops_timeout() -> float:
    return tree_const("bellows.ezsp", "NETWORK_OPS_TIMEOUT", 10.0)


def net_up_timeout() -> float:
    return tree_const("bellows.zigbee.application", "NETWORK_UP_TIMEOUT_S", 10.0)


def aps_ack_timeout() -> float:
    return tree_const("bellows.zigbee.application", "APS_ACK_TIMEOUT", 120.0)


def startup_reset_wait() -> float:
    """how long a socket-attached NCP is given to announce its own start-up reset before the host asks for one"""
    return tree_const("bellows.ezsp", "NETWORK_COORDINATOR_STARTUP_RESET_WAIT", 1.0)


def retry_delays() -> list:
    """the 'fixed number of spaced retries' of a busy NCP: the tree's list of delays (its length is the number of attempts)"""
    try:
        v = [float(x) for x in getattr(importlib.import_module("bellows.zigbee.application"), "RETRY_DELAYS")]
        return v if 1 <= len(v) <= 10 else [0.5, 1.0, 1.5]
    except Exception:
        return [0.5, 1.0, 1.5]


def watchdog_tolerated() -> int:
    return tree_const("bellows.zigbee.application", "MAX_WATCHDOG_FAILURES", 4)
