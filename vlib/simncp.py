"""EZSP-level simulated NCP attached at the gateway boundary.

`SimNcp(loop, version)` stands in for bellows.uart.Gateway: EZSP hands it request frames
through send_data(); it parses the header with vlib.refezsp (ignoring frames in the wrong
layout: that is what makes framing mistakes observable), decodes the arguments with the
active version's table, runs a per-command handler over a dumb state record and answers by
loop.call_later(delay, ezsp.frame_received, bytes).  Responses are built BY FIELD NAME so
that field order comes from the version table, never from the code under test.

Per-command behaviour can be overridden by `script[name]` = callable(sim, args) -> dict | None
(None = no reply) and observed in `log` = [(time, name, args dict)]."""
from __future__ import annotations

import asyncio

from vlib import refezsp

DELAY = 0.001

# status numbers per family (written by hand; see props/c18 for the oracle of the mapping)
EMBER = {"OK": 0x00, "ERR": 0x01, "BAD_ARGUMENT": 0x02, "NOT_JOINED": 0x93, "NETWORK_UP": 0x90, "NETWORK_DOWN": 0x91,
         "INVALID_CALL": 0x70, "TABLE_FULL": 0xB4, "INDEX_OUT_OF_RANGE": 0xB1, "NOT_FOUND_LEGACY": 0xB6,
         "MAX_MESSAGE_LIMIT_REACHED": 0x72, "NETWORK_BUSY": 0xA1, "NO_BUFFERS": 0x18, "DELIVERY_FAILED": 0x66,
         "KEY_INVALID": 0xB2, "LIBRARY_NOT_PRESENT": 0xB5, "INVALID_CHANNEL": 0x33}
EZSPST = {"OK": 0x00, "ERR": 0x35, "ERROR_INVALID_ID": 0x37, "ERROR_OUT_OF_MEMORY": 0x35, "ERROR_INVALID_VALUE": 0x36,
          "ERROR_INVALID_CALL": 0x38}
SL = {"OK": 0x00, "ERR": 0x01, "FAIL": 0x01, "BAD_ARGUMENT": 0x21, "NOT_JOINED": 0x17, "NETWORK_UP": 0x15, "NETWORK_DOWN": 0x16,
      "INVALID_CALL": 0x02, "TABLE_FULL": 0x1B, "INDEX_OUT_OF_RANGE": 0x27, "NOT_FOUND_LEGACY": 0x2D, "NOT_FOUND": 0x2D,
      "MAX_MESSAGE_LIMIT_REACHED": 0x0C03, "NETWORK_BUSY": 0x04, "NO_BUFFERS": 0x19, "DELIVERY_FAILED": 0x0C02,
      "KEY_INVALID": 0x0C24, "ERROR_INVALID_ID": 0x21, "ERROR_OUT_OF_MEMORY": 0x19, "ERROR_INVALID_VALUE": 0x21,
      "ERROR_INVALID_CALL": 0x02, "LIBRARY_NOT_PRESENT": 0x0F, "INVALID_CHANNEL": 0x21}


class Unhandled(Exception):
    pass


class SimNcp:
    def __init__(self, loop, version, *, delay=DELAY):
        import bellows.ezsp as e

        self.loop = loop
        self.version = version
        self.table_version = version if version in e.EZSP._BY_VERSION else max(e.EZSP._BY_VERSION)
        self.cls = e.EZSP._BY_VERSION[self.table_version]
        self.by_id = {cid: (n, tx, rx) for n, (cid, tx, rx) in self.cls.COMMANDS.items()}
        self.delay = delay
        self.ezsp = None
        self.log = []          # (time, name, args)
        self.raw = []          # (time, bytes) every request frame
        self.ignored = []      # frames not understood (wrong layout / unknown id)
        self.script = {}       # name -> callable(sim, args) -> dict | None | "default"
        self.send_hook = None  # async callable(data) run inside send_data (delay / raise)
        self.last_resp_seq = 0xFF
        self.closed = False
        self.state = {}
        self.unhandled = []
        self.negotiated = True   # make_ezsp() starts with the handler of `version` active
        self.resets = 0

    # ---- gateway interface used by EZSP / ProtocolHandler
    async def send_data(self, data: bytes) -> None:
        data = bytes(data)
        if self.send_hook is not None:
            await self.send_hook(data)
        self.raw.append((self.loop.time(), data))
        self._handle(data)

    def close(self):
        self.closed = True

    async def reset(self):
        """Gateway.reset(): the NCP restarts; EZSP framing is back to the legacy query only."""
        self.log.append((self.loop.time(), "<reset>", {}))
        self.resets += 1
        self.negotiated = False
        self.on_reset()

    def on_reset(self):
        pass

    async def wait_for_startup_reset(self):
        await asyncio.get_running_loop().create_future()

    # ---- attach
    def attach(self, ezsp):
        self.ezsp = ezsp
        ezsp._gw = self
        return self

    # ---- frame handling
    def _handle(self, data):
        if not self.negotiated:
            lay = refezsp.layout(self.table_version)
            if len(data) == 4 and data[2] == 0x00 and data[1] & 0x80 == 0:
                self.log.append((self.loop.time(), "version", {"legacy": True, "desired": data[3]}))
                if lay == "legacy":
                    self.negotiated = True
                self.loop.call_later(self.delay, self._deliver_response, data[0],
                                     bytes([data[0], 0x80, 0x00, self.version & 0xFF, 0x02, 0x23, 0x71]))
                return
            p = refezsp.parse(self.table_version, data)
            if not (p is not None and p[2] == 0x0000 and p[3] == bytes([self.version & 0xFF])):
                self.ignored.append(data)
                return
            self.negotiated = True
        p = refezsp.parse(self.table_version, data)
        if p is None:
            self.ignored.append(data)
            return
        seq, fc, fid, payload = p
        if fid not in self.by_id:
            self.ignored.append(data)
            return
        name, tx, rx = self.by_id[fid]
        import bellows.types as t

        try:
            args, rest = t.deserialize_dict(payload, tx)
        except Exception:
            self.ignored.append(data)
            return
        self.log.append((self.loop.time(), name, dict(args)))
        fn = self.script.get(name)
        resp = "default"
        if fn is not None:
            resp = fn(self, args)
        if resp == "default":
            h = getattr(self, "cmd_" + name, None)
            if h is None:
                self.unhandled.append(name)
                resp = self.invalid_command(seq)
                return
            resp = h(**args)
        if resp is None:
            return
        self.reply(seq, name, resp)

    def invalid_command(self, seq):
        name = "invalidCommand"
        cid, tx, rx = self.cls.COMMANDS[name]
        field = list(rx)[0]
        self._send(seq, cid, rx, {field: 0x36 if self.table_version < 14 else 0x21}, refezsp.RESPONSE)

    def status_value(self, T, code):
        """abstract status name or int -> value of the schema's status type"""
        if isinstance(code, int):
            return T(code)
        fam = T.__name__
        if fam == "EmberStatus":
            return T(EMBER[code])
        if fam == "EzspStatus":
            return T(EZSPST[code])
        if fam == "sl_Status":
            return T(SL[code])
        return T(0 if code == "OK" else 1)

    def build(self, rx, fields: dict) -> bytes:
        out = b""
        if not isinstance(rx, dict):
            return fields["__struct__"].serialize()
        for k, T in rx.items():
            if k not in fields:
                raise KeyError(f"response field {k!r} missing (have {sorted(fields)})")
            v = fields[k]
            if isinstance(v, str) and T.__name__ in ("EmberStatus", "EzspStatus", "sl_Status"):
                v = self.status_value(T, v)
            out += T(v).serialize()
        return out

    def _send(self, seq, cid, rx, fields, fc, delay=None):
        d = self.delay if delay is None else delay
        if fc == refezsp.RESPONSE:
            data = refezsp.header(self.table_version, seq, cid, fc) + self.build(rx, fields)
            self.loop.call_later(d, self._deliver_response, seq, data)
        else:
            # a callback carries the sequence number of the last response SENT, as of the moment it leaves
            payload = self.build(rx, fields)
            self.loop.call_later(d, lambda: self._deliver(refezsp.header(self.table_version, self.last_resp_seq, cid, fc) + payload))

    def _deliver_response(self, seq, data):
        self.last_resp_seq = seq
        self._deliver(data)

    def _deliver(self, data):
        if self.ezsp is not None and not self.closed:
            self.ezsp.frame_received(data)

    def reply(self, seq, name, fields, delay=None):
        cid, tx, rx = self.cls.COMMANDS[name]
        self._send(seq, cid, rx, fields, refezsp.RESPONSE, delay)

    def callback(self, name, fields, delay=None):
        cid, tx, rx = self.cls.COMMANDS[name]
        self._send(self.last_resp_seq, cid, rx, fields, refezsp.CALLBACK, delay)

    def calls(self, name):
        return [(t, a) for t, n, a in self.log if n == name]

    # ---- generic commands
    def cmd_nop(self):
        return {}

    def cmd_version(self, desiredProtocolVersion):
        return {"protocolVersion": self.version, "stackType": 2, "stackVersion": 0x7123}

    def cmd_getNodeId(self):
        return {"nodeId": self.state.get("node_id", 0x0000)}

    def cmd_getEui64(self):
        import bellows.types as t

        return {"eui64": self.state.get("eui64", t.EUI64.convert("00:11:22:33:44:55:66:77"))}


def make_ezsp(loop, version, **kw):
    """EZSP object wired to a SimNcp with the handler of `version` active and EZSP running."""
    import bellows.ezsp as e

    sim = SimNcp(loop, version, **kw)
    ezsp = e.EZSP({"path": "/dev/null", "baudrate": 115200, "flow_control": None})
    sim.attach(ezsp)
    ezsp._switch_protocol_version(version)
    ezsp.start_ezsp()
    return ezsp, sim
