"""Harness pieces around the real bellows.ash.AshProtocol: fake transport and a
recording upper layer.  Decoding of what the host wrote is done with vlib.refash only."""
from __future__ import annotations

from vlib import refash


class FakeTransport:
    """Records every write() with the loop time; optional `sink(bytes)` forwards."""

    def __init__(self, loop=None, sink=None):
        self.loop = loop
        self.sink = sink
        self.writes = []  # (time, bytes)
        self.closed = False
        self.protocol = None

    def now(self):
        return self.loop.time() if self.loop is not None else 0.0

    def write(self, data):
        data = bytes(data)
        self.writes.append((self.now(), data))
        if self.sink is not None:
            self.sink(data)

    def is_closing(self):
        return self.closed

    def close(self):
        if self.closed:
            return
        self.closed = True
        if self.loop is not None and self.protocol is not None:
            self.loop.call_soon(self.protocol.connection_lost, None)

    def get_extra_info(self, *a, **k):
        return None

    def all_bytes(self):
        return b"".join(d for _, d in self.writes)


class Upper:
    """Stands in for bellows.uart.Gateway above AshProtocol."""

    def __init__(self, loop=None):
        self.loop = loop
        self.events = []  # (time, kind, value)
        self.made = 0

    def now(self):
        return self.loop.time() if self.loop is not None else 0.0

    def connection_made(self, proto):
        self.made += 1

    def connection_lost(self, exc):
        self.events.append((self.now(), "lost", repr(exc)))

    def eof_received(self):
        self.events.append((self.now(), "eof", None))

    def data_received(self, data):
        self.events.append((self.now(), "data", bytes(data)))

    def reset_received(self, code):
        self.events.append((self.now(), "reset", int(code)))

    def error_received(self, code):
        self.events.append((self.now(), "error", int(code)))

    def simple(self):
        return [(k, v) for _, k, v in self.events]


def make_host(loop=None, sink=None):
    import bellows.ash as ash

    up = Upper(loop)
    proto = ash.AshProtocol(up)
    tr = FakeTransport(loop, sink)
    tr.protocol = proto
    proto.connection_made(tr)
    return proto, tr, up


def decoded_writes(tr, start=0):
    """[(time, had_cancel_prefix, decoded dict)] for every write() call."""
    out = []
    for tm, data in tr.writes[start:]:
        frames = refash.split_wire(data)
        out.append((tm, data[:1] == bytes([refash.CAN]), frames, data))
    return out
