"""Faulty FIFO serial line between two endpoints on one (virtual-time) loop.

The unit of fault is the bytes of one write() call (one frame, optionally CANCEL-prefixed).
Fates:  ["d"] deliver | ["x"] drop | ["2"] duplicate | ["c", bit, ...] detectable corruption
        (flip 1..3 bits of the UNSTUFFED frame, re-stuff) | ["s", seconds] stall this unit
        (later units cannot overtake it: the line never reorders) | ["L", k] late duplicate: the
        unit is delivered normally and a copy of it once more after k (1..6) further units of the
        same direction have been delivered - only for ACK/NAK frames travelling to the host (for
        anything else it degrades to a plain back-to-back duplicate).
Each delivery is its own loop callback and no two deliveries share a loop iteration."""
from __future__ import annotations

from vlib import refash

LATENCY = 0.002


def corrupt(unit: bytes, bits) -> bytes:
    pre = b""
    body = unit
    if body[:1] == bytes([refash.CAN]):
        pre, body = body[:1], body[1:]
    if body[-1:] != bytes([refash.FLAG]):
        return unit
    try:
        raw = bytearray(refash.unstuff(body[:-1]))
    except refash.Bad:
        return unit
    if not raw:
        return unit
    nb = len(raw) * 8
    used = set()
    for b in list(bits)[:3]:
        b %= nb
        if b in used:
            continue
        used.add(b)
        raw[b // 8] ^= 1 << (b % 8)
    return pre + refash.stuff(bytes(raw)) + bytes([refash.FLAG])


class Direction:
    def __init__(self, line, name, fates):
        self.line = line
        self.name = name
        self.fates = fates or []
        self.n = 0
        self.last_delivery = 0.0
        self.sink = None  # callable(bytes) at the receiving end
        self.hits = []  # (ordinal, fate kind, frame kind)
        self.late = []  # [remaining units, data] copies waiting to be delivered late
        self._batch = None
        self._batch_when = 0.0

    def write(self, data: bytes):
        line = self.line
        loop = line.loop
        data = bytes(data)
        g = line.n_global
        line.n_global += 1
        k = self.n
        self.n += 1
        fate = None
        if line.global_fates is not None and g < len(line.global_fates):
            fate = line.global_fates[g]
        elif k < len(self.fates):
            fate = self.fates[k]
        if line.targeted:
            fate = line.target_fate(self.name, data) or fate
        fate = fate or ["d"]
        if line.dead:
            fate = ["x"]
        kind = fate[0]
        frames = refash.split_wire(data)
        fk = frames[0].get("kind") if frames else "?"
        line.log.append((loop.time(), self.name, kind, fk, data))
        if kind != "d":
            self.hits.append((k, kind, fk))
        if kind == "x":
            if line.hook is not None:
                line.hook(g, self.name, None)
            return
        delay = LATENCY
        out = [data]
        if kind == "L":
            if self.name == "n2h" and fk in ("ACK", "NAK"):
                self.late.append([max(1, min(6, int(fate[1]))), data])
            else:
                out = [data, data]
        if kind == "2":
            out = [data, data]
        elif kind == "c":
            out = [corrupt(data, fate[1:] or [9])]
        elif kind == "s":
            delay += float(fate[1])
        when = max(self.last_delivery + 1e-6, loop.time() + delay)
        if line.hook is not None:
            line.hook(g, self.name, when)
        for d in out:
            self.last_delivery = when
            if line.merge_reads and self.name == "n2h":
                # frames that reach the receiver back to back arrive in ONE read
                if self._batch is not None and when - self._batch_when < 5e-6:
                    self._batch.append(d)
                    self._batch_when = when
                else:
                    self._batch, self._batch_when = [d], when
                    loop.call_at(when + 4e-6, self._flush_batch, self._batch)
            else:
                loop.call_at(when, self._deliver, d)
            when += 1e-6

    def _deliver(self, data):
        line = self.line
        loop = line.loop
        if line.dead:
            return
        if loop.iterations == line.last_iter:
            loop.call_soon(self._deliver, data)
            return
        line.last_iter = loop.iterations
        if self.sink is not None:
            self.sink(data)
        if self.late and data is not None:
            due = []
            for item in self.late:
                if item[1] is data and item[0] > 0 and item[2:] == []:
                    item.append("armed")  # the original itself has just been delivered: start counting after it
                    continue
                if item[2:]:
                    item[0] -= 1
                    if item[0] <= 0:
                        due.append(item)
            for item in due:
                self.late.remove(item)
                when = max(self.last_delivery + 1e-6, loop.time() + 1e-6)
                self.last_delivery = when
                loop.call_at(when, self._deliver_late, item[1])

    def _flush_batch(self, batch):
        if self._batch is batch:
            self._batch = None
        self._deliver(b"".join(batch))

    def _deliver_late(self, data):
        line = self.line
        loop = line.loop
        if line.dead:
            return
        if loop.iterations == line.last_iter:
            loop.call_soon(self._deliver_late, data)
            return
        line.last_iter = loop.iterations
        if self.sink is not None:
            self.sink(bytes(data))


class Line:
    def __init__(self, loop, fates_h2n=None, fates_n2h=None, global_fates=None, targeted=None):
        self.loop = loop
        self.n_global = 0
        self.global_fates = global_fates
        self.targeted = targeted or []  # [{"tag": bytes-hex prefix, "k": attempt(1-based), "fate": [...]}]
        self._seen = {}
        self.last_iter = -1
        self.log = []
        self.hook = None     # callable(global ordinal, direction name, delivery time or None) at write time
        self.dead = False    # True: everything written from now on is lost (silent peer / cut line)
        self.merge_reads = False  # True: units of the n2h direction delivered at the same instant arrive as one chunk
        self.h2n = Direction(self, "h2n", fates_h2n)
        self.n2h = Direction(self, "n2h", fates_n2h)

    def target_fate(self, dirname, data):
        if dirname != "h2n":
            return None
        for f in refash.split_wire(data):
            if f.get("kind") != "DATA":
                continue
            for tg in self.targeted:
                tag = bytes.fromhex(tg["tag"])
                if f["payload"][:len(tag)] == tag:
                    n = self._seen.get(tg["tag"], 0) + 1
                    self._seen[tg["tag"]] = n
                    for tf in tg["fates"]:
                        if tf["k"] == n:
                            return tf["fate"]
        return None
