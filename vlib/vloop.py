"""Virtual-time asyncio event loop.

Every run is a pure function of the scenario: the loop never blocks, its clock
jumps to the next timer when nothing is ready, and it raises `Hang` when neither
ready callbacks nor timers exist while the awaited scenario is unfinished.
"""
from __future__ import annotations

import asyncio
import heapq
import logging
import selectors


class Hang(Exception):
    """Nothing ready, nothing scheduled, scenario not finished."""


class Horizon(Exception):
    """Virtual clock passed the horizon given for the scenario."""


class _NullSelector(selectors.BaseSelector):
    def __init__(self):
        self._map = {}

    def register(self, fileobj, events, data=None):
        fd = fileobj if isinstance(fileobj, int) else fileobj.fileno()
        key = selectors.SelectorKey(fileobj, fd, events, data)
        self._map[fd] = key
        return key

    def unregister(self, fileobj):
        fd = fileobj if isinstance(fileobj, int) else fileobj.fileno()
        return self._map.pop(fd)

    def modify(self, fileobj, events, data=None):
        self.unregister(fileobj)
        return self.register(fileobj, events, data)

    def select(self, timeout=None):
        return []

    def get_map(self):
        return self._map

    def close(self):
        self._map.clear()


class VirtualLoop(asyncio.SelectorEventLoop):
    def __init__(self, horizon: float | None = None):
        super().__init__(selector=_NullSelector())
        self._vtime = 0.0
        self._horizon = horizon
        self.iterations = 0

    def time(self) -> float:
        return self._vtime

    def _run_once(self):
        self.iterations += 1
        if not self._ready:
            sched = self._scheduled
            while sched and sched[0]._cancelled:
                h = heapq.heappop(sched)
                h._scheduled = False
                self._timer_cancelled_count -= 1
            if sched:
                when = sched[0]._when
                if when > self._vtime:
                    if self._horizon is not None and when > self._horizon:
                        raise Horizon(when)
                    self._vtime = when
            elif not self._stopping:
                raise Hang()
        super()._run_once()


class _TimeShim:
    """Stands in for the `time` module inside bellows modules."""

    def __init__(self):
        self.loop = None

    def monotonic(self):
        return self.loop.time()

    def time(self):
        return self.loop.time()


TIME = _TimeShim()
_patched = False


def patch_time():
    global _patched
    if _patched:
        return
    import bellows.ash
    import bellows.ezsp.protocol

    bellows.ash.time = TIME
    bellows.ezsp.protocol.time = TIME
    _patched = True


def quiet_logging():
    logging.disable(logging.CRITICAL)


def run_case(coro_fn, *, horizon: float | None = None):
    """Run `await coro_fn(loop)` on a fresh virtual loop; returns its result.

    Raises Hang / Horizon from the loop.  Always cancels and drains leftover tasks
    and closes the loop, so nothing outlives a case.
    """
    patch_time()
    loop = VirtualLoop(horizon)
    TIME.loop = loop
    asyncio.set_event_loop(loop)
    loop.set_exception_handler(lambda l, ctx: None)
    try:
        return loop.run_until_complete(coro_fn(loop))
    finally:
        _drain(loop)
        asyncio.set_event_loop(None)
        loop.close()


def _drain(loop):
    loop._horizon = None
    for _ in range(5):
        tasks = [t for t in asyncio.all_tasks(loop) if not t.done()]
        if not tasks:
            break
        for t in tasks:
            t.cancel()
        try:
            loop.run_until_complete(
                asyncio.gather(*tasks, return_exceptions=True)
            )
        except (Hang, Horizon, RuntimeError):
            break
    # swallow "exception never retrieved" noise
    for t in asyncio.all_tasks(loop):
        if t.done() and not t.cancelled():
            t.exception()


async def settle(loop, dt: float = 0.0):
    """Let the loop run `dt` virtual seconds (0 = a few iterations)."""
    if dt > 0:
        await asyncio.sleep(dt)
    else:
        for _ in range(3):
            await asyncio.sleep(0)
