"""Independent EZSP frame-header codec, written from UG100 (EZSP reference guide).

Three layouts:
  legacy            v4      [seq, frame-control, id8]
  legacy extended   v5..v7  [seq, frame-control, 0xFF, 0x00, id8]
  extended          v8+     [seq, fc-low, fc-high = 0x01 (frame format version 1), id-low, id-high]
Command frame control is 0x00; response 0x80; asynchronous callback response 0x90 (callback type bits)."""
from __future__ import annotations


def layout(version: int) -> str:
    if version <= 4:
        return "legacy"
    if version <= 7:
        return "legacy-ext"
    return "extended"


def header(version: int, seq: int, frame_id: int, fc: int = 0x00) -> bytes:
    lay = layout(version)
    if lay == "legacy":
        assert frame_id <= 0xFF
        return bytes([seq & 0xFF, fc, frame_id])
    if lay == "legacy-ext":
        assert frame_id <= 0xFF
        return bytes([seq & 0xFF, fc, 0xFF, 0x00, frame_id])
    return bytes([seq & 0xFF, fc, 0x01, frame_id & 0xFF, frame_id >> 8])


def parse(version: int, data: bytes):
    """-> (seq, fc, frame_id, payload) or None when the bytes are not in this layout."""
    lay = layout(version)
    if lay == "legacy":
        if len(data) < 3:
            return None
        return data[0], data[1], data[2], data[3:]
    if lay == "legacy-ext":
        if len(data) < 5 or data[2] != 0xFF:
            return None
        return data[0], data[1], data[4], data[5:]
    if len(data) < 5 or (data[2] & 0x03) != 0x01:
        return None
    return data[0], data[1], data[3] | data[4] << 8, data[5:]


RESPONSE, CALLBACK = 0x80, 0x90
