"""Independent EZSP frame-header codec, written from UG100 (EZSP reference guide).

Three layouts:
  legacy            v4      [seq, frame-control, id8]
  legacy extended   v5..v7  [seq, frame-control, 0xFF, 0x00, id8]
  extended          v8+     [seq, fc-low, fc-high = 0x01 (frame format version 1), id-low, id-high]
Command frame control is 0x00; response 0x80; asynchronous callback response 0x90 (callback type bits)."""
from __future__ import annotations


def layout(version: int) -> str:
    if version <= 4:
        return "legacy"
    if version <= 7:
        return "legacy-ext"
    return "extended"


def header(version: int, seq: int, frame_id: int, fc: int = 0x00) -> bytes:
    lay = layout(version)
    if lay == "legacy":
        assert frame_id <= 0xFF
        return bytes([seq & 0xFF, fc, frame_id])
    if lay == "legacy-ext":
        assert frame_id <= 0xFF
        return bytes([seq & 0xFF, fc, 0xFF, 0x00, frame_id])
    return bytes([seq & 0xFF, fc, 0x01, frame_id & 0xFF, frame_id >> 8])


def parse(version: int, data: bytes):
    """-> (seq, fc, frame_id, payload) or None when the bytes are not in this layout."""
    lay = layout(version)
    if lay == "legacy":
        if len(data) < 3:
            return None
        return data[0], data[1], data[2], data[3:]
    if lay == "legacy-ext":
        if len(data) < 5 or data[2] != 0xFF:
            return None
        return data[0], data[1], data[4], data[5:]
    if len(data) < 5 or (data[2] & 0x03) != 0x01:
        return None
    return data[0], data[1], data[3] | data[4] << 8, data[5:]


RESPONSE, CALLBACK = 0x80, 0x90


# ----------------------------------------------------------------------------------
# Hand-written byte encoders for the callbacks the application layer translates.
# Field ORDER and WIDTHS are written out here from UG100 (pre-v14) and from the EmberZNet
# 8.x / EZSP v14 release notes (status-first, EUI64 and timestamp added); nothing is taken
# from bellows' tables, so a swapped field there or in ezsp_callback_handler is not mirrored.

FRAME_INCOMING_MESSAGE = 0x0045
FRAME_MESSAGE_SENT = 0x003F
FRAME_TC_JOIN = 0x0024
FRAME_STACK_STATUS = 0x0019

INCOMING_UNICAST, INCOMING_UNICAST_REPLY, INCOMING_MULTICAST, INCOMING_MULTICAST_LOOPBACK = 0, 1, 2, 3
INCOMING_BROADCAST, INCOMING_BROADCAST_LOOPBACK, INCOMING_MANY_TO_ONE = 4, 5, 6
DEVICE_LEFT = 2
DENY_JOIN = 2


def _u16(v):
    return int(v).to_bytes(2, "little")


def _u32(v):
    return int(v).to_bytes(4, "little")


def aps_frame(profile, cluster, src_ep, dst_ep, options, group, sequence) -> bytes:
    return _u16(profile) + _u16(cluster) + bytes([src_ep & 0xFF, dst_ep & 0xFF]) + _u16(options) + _u16(group) + bytes([sequence & 0xFF])


def enc_incoming_message(version, seq, *, mtype, aps, lqi, rssi, sender, binding_index, address_index, message,
                         eui64=b"\x00" * 8, timestamp=0) -> bytes:
    rssi_b = int(rssi).to_bytes(1, "little", signed=True)
    body = bytes([mtype]) + aps
    if version >= 14:
        body += _u16(sender) + bytes(eui64) + bytes([binding_index, address_index, lqi]) + rssi_b + _u32(timestamp)
    else:
        body += bytes([lqi]) + rssi_b + _u16(sender) + bytes([binding_index, address_index])
    body += bytes([len(message)]) + bytes(message)
    return header(version, seq, FRAME_INCOMING_MESSAGE, CALLBACK) + body


def enc_message_sent(version, seq, *, mtype, destination, aps, tag, status, message=b"") -> bytes:
    if version >= 14:
        body = _u32(status) + bytes([mtype]) + _u16(destination) + aps + _u16(tag)
    else:
        body = bytes([mtype]) + _u16(destination) + aps + bytes([tag & 0xFF, status & 0xFF])
    body += bytes([len(message)]) + bytes(message)
    return header(version, seq, FRAME_MESSAGE_SENT, CALLBACK) + body


def enc_tc_join(version, seq, *, nwk, eui64, status, decision, parent) -> bytes:
    body = _u16(nwk) + bytes(eui64) + bytes([status, decision]) + _u16(parent)
    return header(version, seq, FRAME_TC_JOIN, CALLBACK) + body


def enc_stack_status(version, seq, status) -> bytes:
    body = _u32(status) if version >= 14 else bytes([status & 0xFF])
    return header(version, seq, FRAME_STACK_STATUS, CALLBACK) + body
