"""Independent ASH reference, written from UG101 (ASH chapter).

Does NOT import bellows.  Pieces:
  crc_ccitt, lfsr, stuff, unstuff        primitive functions (bitwise, table-free)
  encode_*/decode_frame/classify         frame codec on *unstuffed* bytes
  wire(...)                              bytes as they appear on the serial line
  StreamDecoder                          byte-at-a-time host-side receiver model
  RefNcp                                 a conforming NCP endpoint (window 1..3)
"""
from __future__ import annotations

import collections
import itertools

FLAG, ESC, XON, XOFF, SUB, CAN = 0x7E, 0x7D, 0x11, 0x13, 0x18, 0x1A
RESERVED = (FLAG, ESC, XON, XOFF, SUB, CAN)

RESET_SOFTWARE = 0x0B


def crc_ccitt(data: bytes) -> int:
    crc = 0xFFFF
    for byte in data:
        crc ^= byte << 8
        for _ in range(8):
            if crc & 0x8000:
                crc = ((crc << 1) ^ 0x1021) & 0xFFFF
            else:
                crc = (crc << 1) & 0xFFFF
    return crc


def with_crc(data: bytes) -> bytes:
    c = crc_ccitt(data)
    return bytes(data) + bytes([c >> 8, c & 0xFF])


def lfsr(n: int) -> bytes:
    out = bytearray()
    b = 0x42
    for _ in range(n):
        out.append(b)
        b = (b >> 1) ^ 0xB8 if b & 1 else b >> 1
    return bytes(out)


_LFSR = lfsr(2048)


def randomize(data: bytes) -> bytes:
    return bytes(a ^ b for a, b in zip(data, _LFSR))


def stuff(data: bytes) -> bytes:
    out = bytearray()
    for b in data:
        if b in RESERVED:
            out.append(ESC)
            out.append(b ^ 0x20)
        else:
            out.append(b)
    return bytes(out)


class Bad(Exception):
    pass


def unstuff(data: bytes, *, esc_esc_noeffect=False) -> bytes:
    """Strict: an escape must be followed by the flipped twin of a reserved byte.
    A trailing escape (escape immediately before the flag) is reported via Bad('esc-flag')
    so the caller can apply the don't-care policy."""
    out = bytearray()
    i, n = 0, len(data)
    while i < n:
        b = data[i]
        if b == ESC:
            if i + 1 >= n:
                raise Bad("esc-flag")
            nxt = data[i + 1]
            if nxt == ESC and esc_esc_noeffect:
                i += 1  # first escape has no effect; re-examine the second
                continue
            v = nxt ^ 0x20
            if v not in RESERVED:
                raise Bad("esc-invalid" if nxt != ESC else "esc-esc")
            out.append(v)
            i += 2
        else:
            out.append(b)
            i += 1
    return bytes(out)


# ---------------------------------------------------------------- frame codec


def enc_data(frm: int, retx: int, ack: int, payload: bytes) -> bytes:
    return with_crc(bytes([(frm & 7) << 4 | (retx & 1) << 3 | (ack & 7)]) + randomize(payload))


def enc_ack(ack: int, nrdy: int = 0, res: int = 0) -> bytes:
    return with_crc(bytes([0x80 | (res & 1) << 4 | (nrdy & 1) << 3 | (ack & 7)]))


def enc_nak(ack: int, nrdy: int = 0, res: int = 0) -> bytes:
    return with_crc(bytes([0xA0 | (res & 1) << 4 | (nrdy & 1) << 3 | (ack & 7)]))


def enc_rst() -> bytes:
    return with_crc(bytes([0xC0]))


def enc_rstack(code: int, version: int = 2) -> bytes:
    return with_crc(bytes([0xC1, version, code]))


def enc_error(code: int, version: int = 2) -> bytes:
    return with_crc(bytes([0xC2, version, code]))


def wire(unstuffed: bytes, *, cancel=False) -> bytes:
    return (bytes([CAN]) if cancel else b"") + stuff(unstuffed) + bytes([FLAG])


def classify(control: int) -> str | None:
    if control & 0x80 == 0:
        return "DATA"
    if control & 0xE0 == 0x80:
        return "ACK"
    if control & 0xE0 == 0xA0:
        return "NAK"
    if control == 0xC0:
        return "RST"
    if control == 0xC1:
        return "RSTACK"
    if control == 0xC2:
        return "ERROR"
    return None


def decode_frame(raw: bytes) -> dict:
    """Decode unstuffed frame bytes (control .. crc). Raises Bad(reason).
    Returns dict(kind=..., fields..., flags=set of don't-care conditions touched)."""
    if len(raw) < 3:
        raise Bad("short")
    body, crc = raw[:-2], raw[-2:]
    c = crc_ccitt(body)
    if crc != bytes([c >> 8, c & 0xFF]):
        raise Bad("crc")
    control, field = body[0], body[1:]
    kind = classify(control)
    if kind is None:
        raise Bad("control")
    flags = set()
    if kind == "DATA":
        if len(field) < 3 or len(field) > 128:
            flags.add("DATA-LEN")
        return dict(kind=kind, frm=(control >> 4) & 7, retx=(control >> 3) & 1,
                    ack=control & 7, payload=randomize(field), flags=flags)
    if kind in ("ACK", "NAK"):
        if field:
            flags.add("ACK-LEN")
        return dict(kind=kind, res=(control >> 4) & 1, nrdy=(control >> 3) & 1,
                    ack=control & 7, flags=flags)
    if kind == "RST":
        if field:
            raise Bad("rst-len")
        return dict(kind=kind, flags=flags)
    # RSTACK / ERROR
    if len(field) != 2:
        raise Bad("rstack-len")
    if field[0] != 2:
        flags.add("VER")
    return dict(kind=kind, version=field[0], code=field[1], flags=flags)


# -------------------------------------------------------------- stream decoder

SWITCHES = ("ESC-FLAG", "ACK-LEN", "DATA-LEN", "VER", "RETX-OOS")
# Setting 0 of every switch is the first-listed behaviour in DESIGN.md section 3.2
#   ESC-FLAG : 0 escape before flag has no effect      1 frame rejected
#   (two escape bytes in a row are NOT a don't-care: the second byte does not unescape to a reserved value,
#    so it is an invalid escape and the frame is rejected - the property statement says an invalid escape
#    never produces an upward delivery; an independently seeded change showed the former switch hid that)
#   ACK-LEN  : 0 ACK/NAK with extra data accepted      1 rejected
#   DATA-LEN : 0 data field up to 256 bytes delivered  1 only 3..128 delivered
#   VER      : 0 RSTACK/ERROR version != 2 rejected    1 accepted
#   RETX-OOS : 0 retransmitted out-of-sequence DATA is ACKed  1 NAKed
DEFAULT_SW = {k: 0 for k in SWITCHES}


class StreamDecoder:
    """Host-side receiver: bytes in, (upward events, frames written back) out.

    Events:  ("data", payload) | ("reset", code)
    Writes:  ("ACK", n) | ("NAK", n)
    `touched` collects the don't-care switches whose input class occurred.
    """

    def __init__(self, sw=None, rx_seq=0):
        self.sw = dict(DEFAULT_SW)
        if sw:
            self.sw.update(sw)
        self.buf = bytearray()
        self.poisoned = False
        self.rx_seq = rx_seq
        self.events = []
        self.writes = []
        self.touched = set()
        self.accepted = 0
        self.rejected = 0

    @property
    def residue(self):
        return len(self.buf)

    def feed(self, data: bytes):
        for b in data:
            if b == XON or b == XOFF:
                continue
            if self.poisoned:
                if b == FLAG:
                    self.poisoned = False
                    self.buf.clear()
                continue
            if b == CAN:
                self.buf.clear()
            elif b == SUB:
                self.poisoned = True
                self.buf.clear()
            elif b == FLAG:
                fr = bytes(self.buf)
                self.buf.clear()
                if fr:
                    self._frame(fr)
            else:
                self.buf.append(b)

    def _reject(self):
        self.rejected += 1
        self.writes.append(("NAK", self.rx_seq))

    def _frame(self, stuffed: bytes):
        sw = self.sw
        out = bytearray()
        i, n = 0, len(stuffed)
        while i < n:
            b = stuffed[i]
            if b != ESC:
                out.append(b)
                i += 1
                continue
            if i + 1 >= n:  # escape immediately before the flag
                self.touched.add("ESC-FLAG")
                if sw["ESC-FLAG"]:
                    return self._reject()
                i += 1
                continue
            nxt = stuffed[i + 1]
            v = nxt ^ 0x20
            if v not in RESERVED:
                return self._reject()  # strict: invalid escape never delivers
            out.append(v)
            i += 2
        self._raw(bytes(out))

    def _raw(self, raw: bytes):
        sw = self.sw
        try:
            f = decode_frame(raw)
        except Bad:
            return self._reject()
        self.touched |= f["flags"]
        kind = f["kind"]
        if kind == "DATA":
            n = len(f["payload"])
            if "DATA-LEN" in f["flags"]:
                if sw["DATA-LEN"] or n > 256:
                    return self._reject()
            if f["frm"] == self.rx_seq:
                self.rx_seq = (self.rx_seq + 1) % 8
                self.accepted += 1
                self.writes.append(("ACK", self.rx_seq))
                self.events.append(("data", f["payload"]))
            elif f["retx"]:
                self.touched.add("RETX-OOS")
                self.writes.append(("NAK" if sw["RETX-OOS"] else "ACK", self.rx_seq))
            else:
                self.writes.append(("NAK", self.rx_seq))
        elif kind in ("ACK", "NAK"):
            if "ACK-LEN" in f["flags"] and sw["ACK-LEN"]:
                return self._reject()
            self.accepted += 1
        elif kind == "RST":
            self.accepted += 1
        else:  # RSTACK / ERROR
            if "VER" in f["flags"] and not sw["VER"]:
                return self._reject()
            self.accepted += 1
            if kind == "RSTACK":
                self.rx_seq = 0
            self.events.append(("reset", f["code"]))

    def trace(self):
        return (list(self.events), list(self.writes))


def all_switch_settings():
    for vals in itertools.product((0, 1), repeat=len(SWITCHES)):
        yield dict(zip(SWITCHES, vals))


def split_wire(data: bytes):
    """Split bytes written by an endpoint into frames (strict: no noise expected).
    Yields decoded dicts; frames that fail to decode yield dict(kind='BAD')."""
    dec = []
    cur = bytearray()
    for b in data:
        if b == CAN:
            cur.clear()
        elif b == FLAG:
            if cur:
                try:
                    dec.append(decode_frame(unstuff(bytes(cur))))
                except Bad as e:
                    dec.append(dict(kind="BAD", reason=e.args[0], raw=bytes(cur)))
                cur.clear()
        else:
            cur.append(b)
    return dec


# ------------------------------------------------------------------- NCP peer


class NcpFailed(Exception):
    pass


class RefNcp:
    """A specification-conforming NCP endpoint on an asyncio loop.

    write(bytes)        -> callable given by the harness (the line)
    on_data(payload)    -> upward delivery on the NCP side
    send(payload)       -> returns a Future: True when acknowledged, NcpFailed otherwise
    feed(bytes)         -> bytes arriving from the host
    """

    T_ACK = 1.6
    MAX_TIMEOUTS = 5

    def __init__(self, loop, write, on_data, window=1, auto_rstack=True):
        assert 1 <= window <= 3
        self.loop = loop
        self._write = write
        self.on_data = on_data
        self.window = window
        self.auto_rstack = auto_rstack
        self.failed = False
        self.resets = 0
        self._reset_state()
        self._rxbuf = bytearray()
        self._poison = False
        self.log = []  # (time, direction, summary)

    def _reset_state(self):
        self.rx_seq = 0
        self.reject = False
        self.tx_next = 0
        self.tx_base = 0
        self.queue = collections.deque()
        self.unacked = []
        self.timeouts = 0
        self._timer = None

    # -- transmit side
    def send(self, payload: bytes):
        fut = self.loop.create_future()
        if self.failed:
            fut.set_exception(NcpFailed("failed"))
            return fut
        self.queue.append(dict(payload=bytes(payload), fut=fut, num=None, tries=0))
        self._pump()
        return fut

    def _pump(self):
        while len(self.unacked) < self.window and self.queue:
            e = self.queue.popleft()
            e["num"] = self.tx_next
            self.tx_next = (self.tx_next + 1) % 8
            self.unacked.append(e)
            self._tx(e)
        if self.unacked and self._timer is None:
            self._arm()

    def _tx(self, e):
        retx = 1 if e["tries"] else 0
        e["tries"] += 1
        self._out(enc_data(e["num"], retx, self.rx_seq, e["payload"]))

    def _out(self, raw, cancel=False):
        self._write(wire(raw, cancel=cancel))

    def _arm(self):
        if self._timer is not None:
            self._timer.cancel()
        self._timer = self.loop.call_later(self.T_ACK, self._timeout)

    def _disarm(self):
        if self._timer is not None:
            self._timer.cancel()
            self._timer = None

    def _timeout(self):
        self._timer = None
        if self.failed or not self.unacked:
            return
        self.timeouts += 1
        if self.timeouts >= self.MAX_TIMEOUTS:
            return self._fail(0x51)
        for e in self.unacked:
            self._tx(e)
        self._arm()

    def _fail(self, code):
        self.failed = True
        self._disarm()
        self._out(enc_error(code))
        for e in list(self.unacked) + list(self.queue):
            if not e["fut"].done():
                e["fut"].set_exception(NcpFailed(code))
        self.unacked.clear()
        self.queue.clear()

    def _ack(self, a):
        n = (a - self.tx_base) % 8
        if n == 0 or n > len(self.unacked):
            return
        for e in self.unacked[:n]:
            if not e["fut"].done():
                e["fut"].set_result(True)
        del self.unacked[:n]
        self.tx_base = a
        self.timeouts = 0
        if self.unacked:
            self._arm()
        else:
            self._disarm()
        self._pump()

    # -- receive side
    def feed(self, data: bytes):
        for b in data:
            if b == XON or b == XOFF:
                continue
            if self._poison:
                if b == FLAG:
                    self._poison = False
                    self._rxbuf.clear()
                continue
            if b == CAN:
                self._rxbuf.clear()
            elif b == SUB:
                self._poison = True
                self._rxbuf.clear()
            elif b == FLAG:
                fr = bytes(self._rxbuf)
                self._rxbuf.clear()
                if fr:
                    self._frame(fr)
            else:
                self._rxbuf.append(b)

    def _bad(self):
        if self.failed:
            return
        if not self.reject:
            self.reject = True
            self._out(enc_nak(self.rx_seq))

    def _frame(self, stuffed):
        try:
            f = decode_frame(unstuff(stuffed))
        except Bad:
            return self._bad()
        kind = f["kind"]
        if kind == "RST":
            self.resets += 1
            self._disarm()
            for e in list(self.unacked) + list(self.queue):
                if not e["fut"].done():
                    e["fut"].set_exception(NcpFailed("reset"))
            self._reset_state()
            self.failed = False
            if self.auto_rstack:
                self._out(enc_rstack(RESET_SOFTWARE), cancel=True)
            return
        if self.failed:
            return
        if kind == "DATA":
            if f["flags"]:
                return self._bad()
            self._ack(f["ack"])
            if f["frm"] == self.rx_seq:
                self.rx_seq = (self.rx_seq + 1) % 8
                self.reject = False
                self._out(enc_ack(self.rx_seq))
                self.on_data(f["payload"])
            elif f["retx"]:
                self._out(enc_ack(self.rx_seq))
            else:
                self._bad()
        elif kind == "ACK":
            self._ack(f["ack"])
        elif kind == "NAK":
            self._ack(f["ack"])
            if self.unacked:
                for e in self.unacked:
                    self._tx(e)
                self._arm()
        # RSTACK / ERROR from a host: ignored


# ------------------------------------------------------------------ self-test


def selftest():
    def hx(s):
        return bytes.fromhex(s.replace(" ", ""))

    assert wire(enc_rst(), cancel=True) == hx("1A C0 38 BC 7E"), wire(enc_rst(), cancel=True).hex()
    assert wire(enc_rstack(0x0B), cancel=True) == hx("1A C1 02 0B 0A 52 7E")
    assert wire(enc_ack(1)) == hx("81 60 59 7E")
    assert wire(enc_nak(6)) == hx("A6 34 DC 7E")
    assert wire(enc_data(2, 0, 5, hx("00 00 00 02"))) == hx("25 42 21 A8 56 A6 09 7E")
    assert lfsr(5) == hx("42 21 A8 54 2A")
    assert crc_ccitt(b"123456789") == 0x29B1
    for raw in (bytes(range(256)), bytes(RESERVED) * 3, b""):
        assert unstuff(stuff(raw)) == raw
        assert not (set(stuff(raw)) & (set(RESERVED) - {ESC}))
    d = StreamDecoder()
    d.feed(wire(enc_data(0, 0, 0, b"abc")) + wire(enc_data(0, 1, 0, b"abc")) + wire(enc_data(2, 0, 0, b"zzz")))
    assert d.events == [("data", b"abc")] and d.writes == [("ACK", 1), ("ACK", 1), ("NAK", 1)], d.trace()
    f = decode_frame(enc_data(3, 1, 6, b"hello"))
    assert (f["frm"], f["retx"], f["ack"], f["payload"]) == (3, 1, 6, b"hello")
    try:
        decode_frame(enc_ack(1)[:-1] + b"\x00")
        raise AssertionError("bad crc accepted")
    except Bad:
        pass
