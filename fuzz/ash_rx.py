#!/venv/bin/python
"""atheris target for C02: raw bytes -> (chunking seed, stream); the differential oracle
(bellows receiver vs vlib.refash.StreamDecoder under don't-care switches) runs inside."""
import json
import os
import sys

ROOT = os.path.dirname(os.path.dirname(os.path.abspath(__file__)))
for p in (os.environ.get("VERIF_REPO", "/repo"), ROOT, os.path.join(ROOT, ".deps")):
    if p not in sys.path:
        sys.path.insert(0, p)


def decode_input(data: bytes):
    if not data:
        return []
    seed, stream = data[0], data[1:]
    if seed == 0 or not stream:
        return [stream] if stream else []
    chunks, pos, x = [], 0, seed
    hi = (seed % 16) + 1
    while pos < len(stream):
        x = (x * 1103515245 + 12345) & 0x7FFFFFFF
        n = 1 + (x >> 16) % hi
        chunks.append(stream[pos:pos + n])
        pos += n
    return chunks


_stats = {"n": 0, "classes": {}, "keys": set()}


def _flush():
    path = os.environ.get("FUZZ_STATS")
    if path:
        with open(path + ".tmp", "w") as f:
            json.dump({"n": _stats["n"], "classes": _stats["classes"], "nontrivial_keys": sorted(_stats["keys"])[:200000]}, f)
        os.replace(path + ".tmp", path)


def main():
    import atheris

    with atheris.instrument_imports(include=["bellows.ash"]):
        import bellows.ash  # noqa
    import logging

    logging.disable(logging.CRITICAL)
    from props import c02

    def one(data):
        chunks = decode_input(data)
        if not chunks:
            return
        plan = {"t": "stream", "chunks": [c.hex() for c in chunks]}
        res = c02.check_stream(plan)
        _stats["n"] += 1
        for c in res.classes:
            _stats["classes"][c] = _stats["classes"].get(c, 0) + 1
        if res.nontrivial:
            _stats["keys"].add(hash(bytes(data)) & 0xFFFFFFFFFFFF)
        if _stats["n"] % 2000 == 0:
            _flush()
        if res.violations:
            _flush()
            raise RuntimeError(res.violations[0][0])

    argv = [sys.argv[0]] + sys.argv[1:]
    atheris.Setup(argv, one)
    try:
        atheris.Fuzz()
    finally:
        _flush()


if __name__ == "__main__":
    main()
