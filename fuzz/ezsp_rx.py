#!/venv/bin/python
"""atheris target for C08: bytes -> (version, pending command?, sequence, frame); oracle inside."""
import json
import os
import sys

ROOT = os.path.dirname(os.path.dirname(os.path.abspath(__file__)))
for p in (os.environ.get("VERIF_REPO", "/repo"), ROOT, os.path.join(ROOT, ".deps")):
    if p not in sys.path:
        sys.path.insert(0, p)

PENDING = ["nop", "getNodeId", "getEui64", "networkState", "readCounters", "getNetworkParameters", "leaveNetwork", "getCurrentSecurityState"]


def decode_input(data: bytes):
    data = bytes(data) + b"\x00\x00\x00"
    v = 4 + data[0] % 11
    pend = None
    if data[1] & 1:
        pend = {"name": PENDING[(data[1] >> 1) % len(PENDING)], "seq": data[2], "txb": ""}
    frame = data[3:-3] if len(data) > 6 else b""
    return {"v": v, "pending": pend, "frame": frame.hex(), "mut": "fuzz"}


_stats = {"n": 0, "classes": {}, "keys": set()}


def _flush():
    path = os.environ.get("FUZZ_STATS")
    if path:
        with open(path + ".tmp", "w") as f:
            json.dump({"n": _stats["n"], "classes": _stats["classes"], "nontrivial_keys": sorted(_stats["keys"])[:200000]}, f)
        os.replace(path + ".tmp", path)


def main():
    import atheris

    with atheris.instrument_imports(include=["bellows.ezsp", "bellows.ezsp.protocol", "bellows.types"]):
        import bellows.ezsp  # noqa
    import logging

    logging.disable(logging.CRITICAL)
    from props import c08

    def one(data):
        plan = decode_input(data)
        res = c08.check(plan)
        _stats["n"] += 1
        for c in res.classes:
            _stats["classes"][c] = _stats["classes"].get(c, 0) + 1
        if res.nontrivial:
            _stats["keys"].add(hash(bytes(data)) & 0xFFFFFFFFFFFF)
        if _stats["n"] % 1000 == 0:
            _flush()
        if res.violations:
            _flush()
            raise RuntimeError(res.violations[0][0])

    atheris.Setup([sys.argv[0]] + sys.argv[1:], one)
    try:
        atheris.Fuzz()
    finally:
        _flush()


if __name__ == "__main__":
    main()
