#!/bin/bash
# Offline set-up: verifies /venv has what the checks import and installs atheris
# (coverage-guided fuzzing for C02/C08) from the local wheelhouse into /verif/.deps.
set -u
cd "$(dirname "$0")"
export PIP_NO_INDEX=1 PIP_DISABLE_PIP_VERSION_CHECK=1
PY=/venv/bin/python
WH=/opt/veriftools/wheels
$PY -c "import hypothesis" 2>/dev/null || /venv/bin/pip install -q --no-index --find-links $WH hypothesis || { echo "setup: cannot install hypothesis" >&2; exit 2; }
$PY -c "import jsonschema" 2>/dev/null || /venv/bin/pip install -q --no-index --find-links $WH jsonschema || true
mkdir -p .deps
if ! PYTHONPATH=$PWD/.deps $PY -c "import atheris" 2>/dev/null; then
  /venv/bin/pip install -q --no-index --find-links $WH --target .deps atheris >/dev/null 2>&1 || echo "setup: atheris unavailable (fuzz tiers will be skipped and say so)" >&2
fi
touch .deps/.done
PYTHONHASHSEED=0 PYTHONPATH=/repo:$PWD:$PWD/.deps $PY -m vlib.selftest || { echo "setup: reference self-test failed" >&2; exit 2; }
echo "setup ok"
