#!/venv/bin/python
"""Regenerates MANIFEST.json from the table below (keeps it valid at all times)."""
import json
import os

ROOT = os.path.dirname(os.path.abspath(__file__))

BASELINE = ("cd /repo && /venv/bin/python -m pytest -ra -q -p no:cacheprovider "
            "--timeout=900 --continue-on-collection-errors")

# id -> (category, text, level_note, technique, design_ref)
CHECKS = {
    "C18": (
        "exploration",
        "Exhaustive enumeration of both 8-bit status families (256 values each, built by constructor "
        "and by deserialisation) and of every defined unified status, plus Hypothesis-generated undefined "
        "32-bit values and all 256 values of the four other types that response schemas deliver in a `status` field "
        "(never OK, never raising) and the steering codes fed off the wire through every version's handler helpers, against a hand-written numeric oracle (totality, identity on unified statuses, "
        "OK iff success, steering codes by number). The space the property names is finite and fully covered.",
        "Numeric codes in the oracle are transcribed by hand from Silicon Labs headers; zigpy's enum machinery is trusted.",
        "exhaustive enumeration + Hypothesis value generation against a hand-written table oracle",
        "DESIGN.md 4/C18",
    ),
    "C03": (
        "exploration",
        "Complete enumeration of the finite field space (every DATA control-field combination x payload lengths x "
        "adversarial bodies, all ACK/NAK field values, RST, all 256 RSTACK/ERROR codes, all 256 control bytes for "
        "classification, every 1- and 2-bit corruption of short frames of each type) plus Hypothesis-generated payloads, "
        "each compared in both directions with an independently written bitwise encoder/decoder anchored on the frames "
        "printed in UG101. Bytes are observed at transport.write() including one real send_data on a virtual-time loop.",
        "Trusted: vlib/refash.py (self-tested against UG101 literals at setup). Payload bodies beyond the listed "
        "adversarial ones are sampled, not enumerated.",
        "exhaustive enumeration + Hypothesis generation against an independent reference codec (differential, both directions)",
        "DESIGN.md 4/C03",
    ),
    "C04": (
        "fault_enumeration",
        "Every sequence of well-formed frames of length L (quick 2, thorough 3) over a 43-symbol alphabet (42 frames + the host's own reset request, which must not move the receiver state) covering all "
        "frame numbers, both reTx values, ACK/NAK/RST and RSTACK/ERROR with defined and undefined codes, from each of the "
        "8 reachable expected-number states, plus Hypothesis-generated sequences of 50-400 frames that wrap the counter "
        "dozens of times, also with several frames arriving in one read (every ordered pair enumerated); after each frame the upward calls and the frames written are compared with an 8-state model "
        "written from the statement (iff acceptance, exactly one ACK/NAK with the post-processing number, ACK when accepted).",
        "Frames are encoded by vlib/refash.py. The bound L is the limit of the exhaustive claim; longer sequences are sampled.",
        "exhaustive enumeration to a length bound + Hypothesis sequences against a counter model (history invariant)",
        "DESIGN.md 4/C04",
    ),
    "C02": (
        "exploration",
        "Differential testing of AshProtocol.data_received against an independently written byte-at-a-time reference "
        "decoder: every string up to length 4 (thorough 5) over a 17-symbol reserved-byte-rich alphabet in three receive-buffer "
        "contexts under all 2^(n-1) chunkings; Hypothesis-built multi-frame streams with inserted/deleted/flipped bytes "
        "(including control bytes placed inside escape pairs) under generated chunkings; an atheris coverage-guided campaign "
        "with the same oracle in the target; megabytes of flag-free garbage with a tracemalloc memory bound and a liveness probe. "
        "Upward deliveries, reset notifications and ACK/NAK numbers written back must equal the reference under one of the "
        "documented don't-care settings; exceptions escaping data_received are violations.",
        "Trusted: vlib/refash.StreamDecoder. Equivalence is asserted while residue+chunk <= 1024; the single-read-over-1024 "
        "class is generated separately and is a listed known finding.",
        "differential testing against a reference decoder: exhaustive short streams x all chunkings, Hypothesis structured streams, atheris coverage-guided fuzzing",
        "DESIGN.md 4/C02",
    ),
    "C05": (
        "fault_enumeration",
        "Real AshProtocol on a virtual-time loop against a scripted peer: all 6^5 per-attempt reaction sequences "
        "{covering ACK, stale ACK, NAK, silence, ERROR, RSTACK} for a send with another queued behind it (thorough: at 7 "
        "timing multipliers incl. exactly at and 1e-6 around the timeout), plus Hypothesis plans of 1-24 sends with failures, "
        "recoveries by RSTACK and timeout-drift runs. Invariants over the ordered wire/upcall/outcome log: attempts <= 5, same "
        "number and payload, reTx flag, repeat at a NAK instant or 0.4..3.2 s after the previous attempt, success only after a "
        "covering ACK (and always on one that arrives while outstanding), one notification per failure with the reason, queued "
        "sends fail, silence until RSTACK, one outstanding frame, consecutive numbers restarting at 0 after RSTACK.",
        "Caller cancellation is C01's; the peer never sends DATA here. Timeout value is read from the implementation only to place events.",
        "fault enumeration (exhaustive per-attempt reactions) + Hypothesis plans on a virtual clock, trace invariants",
        "DESIGN.md 4/C05",
    ),
    "C01": (
        "fault_enumeration",
        "Real AshProtocol against an independently written conforming NCP endpoint (window 1..3) over a FIFO line with "
        "per-frame fates on a virtual clock: all 5^d assignments of {deliver, drop, detectable corruption, duplicate, stall "
        "3.5 s} to the first d frames in emission order (d=4 quick, 6 thorough) for each window, plus Hypothesis plans of up to "
        "40 overlapping sends from both ends with caller cancellations at generated instants (frame numbers wrap several "
        "times), plus plans whose faults hit only transmissions of a cancelled payload, plus a fate for each of the five "
        "transmissions of one live payload (all 5^5 assignments enumerated, generated mixtures with lost ACK/NAK). History oracle: deliveries on each "
        "side are an in-order duplicate-free subsequence of the other side's submissions, every successful send was delivered, "
        "and where no fault excuses it every non-cancelled send succeeds.",
        "Trusted: vlib/refash.RefNcp (self-tested RefNcp<->RefNcp under the same oracle on every run) and vlib/line.py. "
        "Beyond depth d fault sequences are sampled.",
        "fault enumeration to a depth bound + Hypothesis fault/schedule plans against an independent peer; history invariants",
        "DESIGN.md 4/C01",
    ),
    "C07": (
        "exploration",
        "All 11 versions x every command (2,751 pairs) are enumerated on every pass; per pair Hypothesis draws sequence "
        "number, argument tuple and response tuple from type-directed strategies that also emit reference bytes computed "
        "from first principles. The real ProtocolHandler.command() is called in positional, keyword, mixed, reversed-keyword, plain-int and other-width-int form against a "
        "fake gateway: bytes must equal independent header(version, seq, id) + reference argument bytes; the reply built from "
        "the reference encoding must come back as exactly the drawn values with no trailing-data log, both as the call's "
        "result and, unsolicited (twice), at the callbacks; every pair is also refused once with an invalidCommand frame. Frame-ID "
        "uniqueness, the inverse table, pinned IDs/wire shapes of 63 core commands and a golden snapshot of IDs and wire shapes "
        "(incl. optional / conditional struct fields) of all 2,751 pairs are enumerated.",
        "Field order and types come from bellows' own tables; the 63 pins are spec-derived, the all-commands snapshot (tools/mkshapes.py) is a golden copy of the unchanged tree; zigpy value constructors trusted.",
        "exhaustive table enumeration x Hypothesis value generation; round-trip and differential against an independent encoder; metamorphic call forms",
        "DESIGN.md 4/C07",
    ),
    "C08": (
        "exploration",
        "For every protocol version, frames derived from reference-encoded valid responses/callbacks by truncation at every "
        "length (for a rotating twelfth of all 2,751 commands in quick, all in thorough), byte flips, frame-ID substitution "
        "(known/unknown), sequence substitution, trailing junk, and random strings, with and without a pending command (also "
        "one whose caller has already timed out or given up), plus "
        "an atheris coverage-guided campaign with the oracle inside the target. Checked: no exception leaves "
        "EZSP.frame_received; the pending call ends only legitimately (own sequence AND own frame ID, InvalidCommandError from "
        "an invalidCommand frame with its sequence, or timeout not before 10 s); callbacks fire exactly for known-ID frames "
        "that decode and answer no pending call; a fresh getNodeId round trip works afterwards.",
        "Decodability of a payload is judged with bellows' own deserializer, overruled by an independent wire-shape length check when that says the bytes cannot hold the schema.",
        "Hypothesis mutation of valid frames + exhaustive truncation + atheris coverage-guided fuzzing with a containment oracle",
        "DESIGN.md 4/C08",
    ),
    "C06": (
        "exploration",
        "Real EZSP object and version handler (4, 7, 13 quick; 4..14 thorough) on a virtual clock against a plan-driven "
        "gateway/NCP: up to 12 overlapping callers from the three priority classes (and 300-call runs that wrap the sequence "
        "byte), per request {gateway accepts at once / after a delay / raises} x {reply, late reply, no reply, duplicate "
        "reply, callback before/after}, cancellations while queued, inside send_data and while awaiting. Invariants over the "
        "log: one command in flight, start order by class then arrival, consecutive sequence bytes, each caller gets exactly "
        "the payload sent for its own request frame or TimeoutError inside the [request seen, request accepted]+10 s window "
        "or the link exception, callbacks delivered exactly once to every callback registered at that instant (two permanent ones "
        "and up to five transient listeners that are added and removed while traffic flows), replies never leak, no slot leaked.",
        "Conforming peer only (callbacks tagged with the last response's sequence); zigpy's priority semaphore trusted; "
        "same-instant ties between an arrival and a slot grant are not judged.",
        "Hypothesis schedule/fault plans on a virtual clock with a plan-driven peer; log invariants (history oracle)",
        "DESIGN.md 4/C06",
    ),
    "C16": (
        "exploration",
        "EZSP.write_config() runs for every protocol version 4..14 against a simulated NCP holding a configuration store; "
        "Hypothesis draws the current value of every setting (below/equal/above the default, unreadable), an override set "
        "from that version's voluptuous schema keys (in-range values, None, keys inside and outside the default list) and "
        "per-setting rejection statuses, optionally preceded by an earlier write_config call on the same object that raised some "
        "values. The oracle reads only the set frames the simulator saw: each ID at most once, "
        "capacity settings (identified by name, not by the code's markers) never written below the reported value unless the "
        "caller supplied them, caller values written exactly, nothing for disabled ones, packet-buffer count last, no "
        "exception, and the same ID sequence as the all-accept twin run.",
        "Simulator (vlib/simncp.py) answers with bellows' serializers; which settings are 'capacity' is a naming convention.",
        "Hypothesis configuration generation against a stateful simulated NCP; frame-log invariants + metamorphic twin run",
        "DESIGN.md 4/C16",
    ),
    "C15": (
        "exploration",
        "Model-based history testing of bellows.multicast.Multicast through real EZSP frames into a simulated NCP whose "
        "multicast table is the model: every operation sequence up to length 3 (thorough 4) over 3 groups x {accepted, "
        "rejected, unanswered -> command timeout} plus a host restart (fresh object re-scanning the table) for table sizes "
        "0..3 and up to three initial contents, plus Hypothesis histories of up to 12 start-up/subscribe/unsubscribe/restart "
        "operations over 5 groups, sizes 0..4, random initial tables whose cleared entries carry arbitrary (also live) group "
        "ids and versions 4/8/13/14. After every operation: host's subscribed set equals the NCP entries with non-zero endpoint, used and free "
        "indices partition the table, a failed call leaves the free count unchanged, re-subscribe is write-free, a full table "
        "refuses; at the end fresh groups can be subscribed exactly as many times as the NCP has free entries. A quarter of the generated "
        "histories go through the coordinator endpoint's add_to_group/remove_from_group, whose zigpy membership must follow the NCP.",
        "Host view is read from Multicast._multicast/_available and confirmed behaviourally; unanswered writes are not applied by the simulator.",
        "exhaustive operation sequences to a bound + Hypothesis histories against a model (the simulated table); invariants after every step",
        "DESIGN.md 4/C15",
    ),
    "C19": (
        "fault_enumeration",
        "Every keep-alive outcome sequence of length 8 (thorough 10) over {ok, timeout, EZSP error} for protocol version 4 "
        "and of length 6 (thorough 8) over the 6 outcomes of later versions (failure on the counter read or on the "
        "free-buffer read, or success with the free-buffer read refused by a status) for versions 8 and 13, judged feed by feed against a two-counter model: a feed raises exactly when "
        "it is a failure and at least the 5th consecutive one, any success clears the run; plus Hypothesis sequences of up to "
        "400 feeds crossing the 180-feed read-and-clear period (and with the period patched to 3 and 5) for versions "
        "4/7/8/13/14/15, optionally with other activity (incoming message, confirmation, status event, another command) between "
        "feeds, which must not touch the count. The simulator checks the commands seen per feed (nop on v4; readCounters or, on period multiples, "
        "readAndClearCounters, followed by getValue(FREE_BUFFERS) after a successful read).",
        "ControllerApplication built with the zigpy.util.Requests shim; feeds are driven by calling _watchdog_feed() directly.",
        "exhaustive outcome-sequence enumeration to a length bound + Hypothesis long histories against a counter model",
        "DESIGN.md 4/C19",
    ),
    "C17": (
        "exploration",
        "formNetwork, leaveNetwork, energy/active startScan on EZSP and _ensure_network_running on the application run "
        "against a simulated NCP on a virtual clock under Hypothesis-generated schedules: response status (OK, refusals, "
        "none) at a generated delay, matching and non-matching status events and scan result/completion callbacks placed "
        "before the request, before the response and after it (including at 10 s boundaries), duplicate completions, caller "
        "cancellation, a second scan request while one runs, transient network states for bring-up, foreign listeners coming and going; 1-8 (thorough 1-20) operations in a row on the same objects, versions 4/6/8/13/14/15. A reference "
        "function computes the set of acceptable outcomes from the schedule (ok / documented refusal error / TimeoutError "
        "inside [request+10 s, response+10 s] / cancelled; scan result lists); after every operation the callback and "
        "status-listener counts must be back at baseline, and a probe event reaches exactly the baseline handlers.",
        "Results that arrive after a scan's completion callback but before its response are accepted either way (statement silent).",
        "Hypothesis schedule generation on a virtual clock against a simulated NCP; reference outcome function + leak invariants",
        "DESIGN.md 4/C17",
    ),
    "C20": (
        "exploration",
        "Real threads and real event loops: an owner loop in bellows' EventLoopThread (or a raw loop thread for the "
        "stopped-not-closed state), callers on the owner loop, the main-thread loop and a second loop thread. Hypothesis "
        "generates scripts of 1-4 bursts of 1-200 concurrent calls over eight method kinds (coroutines returning, raising an "
        "Exception, a non-Exception BaseException, CancelledError; plain methods; a non-callable) and three owner-loop states; "
        "a stopped-not-closed owner loop is run again and must then execute every plain call queued meanwhile; slow coroutine "
        "calls in flight when the owner's thread is force-stopped must all end for their callers once the loop is closed; methods of "
        "the wrapped object that are replaced between two uses (other function, coroutine instead of plain, non-callable). Every "
        "wrapped body records its thread: it must be the owner's; coroutine results/exceptions must reach the caller unchanged "
        "and resume on the caller's loop; cross-thread plain calls return None at once, run exactly once in per-caller FIFO "
        "order, non-None returns and raised exceptions surface in the owner loop's exception handler; owner-loop calls run "
        "directly; non-callables raise TypeError; on a closed loop calls return None quickly without executing.",
        "Thread scheduling is not owned by the harness (oracles are timing-insensitive); a 20 s guard per script yields inconclusive, never a violation.",
        "Hypothesis call-script generation on real threads; thread-identity / relay / exactly-once / FIFO oracles",
        "DESIGN.md 4/C20",
    ),
    "C11": (
        "fault_enumeration",
        "Gateway + AshProtocol on a virtual clock against a scripted peer: all 256 RSTACK codes x {in time, before the "
        "request, after the 5 s timeout, twice} x {reset(), wait_for_startup_reset()}; all 64 prior-traffic counter states; "
        "ERROR frames with every error code; connection_lost(exc) / connection_lost(None) / EOF at several instants, also "
        "after a non-software RSTACK, with a second reset() pending, and after an EOF that preceded the request; 1-3 sends "
        "queued behind an in-flight frame acknowledged before / together with the RSTACK; plus Hypothesis schedules of up to 4 reactions. "
        "Checked: request bytes are exactly 1A C0 38 BC 7E at the request instant; completion iff RSTACK(0x0B) arrives after "
        "the request and before 5 s, else TimeoutError (reset) / still pending (start-up waiter) / the connection error; every "
        "other RSTACK code and every ERROR yields exactly one enter_failed_state(code); afterwards the next host DATA has "
        "frmNum 0/ackNum 0 (also for sends that were queued during the handshake, numbered consecutively) and a peer DATA 0 "
        "is accepted; no waiter survives a connection loss.",
        "A send in flight and still unacknowledged at handshake time is generated and reported as an observation only (outside the stated quantifier).",
        "fault enumeration over codes, arrival instants, counter states and loss points + Hypothesis schedules on a virtual clock",
        "DESIGN.md 4/C11",
    ),
    "C09": (
        "fault_enumeration",
        "The whole stack (EZSP.connect(use_thread=False), Gateway, AshProtocol) runs in virtual time over the faulty line "
        "against a framing-aware NCP of version V (4..14, 15, 16, 31, 255) built from an independent ASH endpoint and a front "
        "end that answers the legacy version query and then ignores anything not in V's own layout. Enumerated fault-free for "
        "every V x {serial, socket://} x {spontaneous RSTACK absent/seen} x second reset via {reset()+version(), "
        "stop_ezsp()+startup_reset()} x {bring-up only, ordinary traffic (a plain command and a handler-level helper) after "
        "each bring-up, a request made between reset() and the repeated negotiation}; every single drop/corruption/duplication on each of the first 10 (thorough 40) frames; "
        "plus Hypothesis multi-fault plans. Checked: first write is RST, first DATA after every reset is the legacy version "
        "query, second query in V's layout, adopted version and table, no request the NCP cannot parse, a request made after a "
        "reset and before the negotiation is repeated is legacy-framed, write_config and ordinary traffic succeed, "
        "clean-line bring-up never fails, faulty lines end only in success or timeout/link errors, never a hang.",
        "NCP negotiation behaviour is written from UG100 as understood; a late spontaneous RSTACK is judged for safety only.",
        "fault enumeration (single-fault positions x versions x paths) + Hypothesis fault plans on the full stack in virtual time",
        "DESIGN.md 4/C09",
    ),
    "C10": (
        "fault_enumeration",
        "Crash-point enumeration on the full stack in virtual time: for the workloads idle / one command in flight / four "
        "queued commands of mixed priority / reset in progress / start-up, the fault-free run's wire events are counted and "
        "the run is repeated with a failure injected before and after each of them for each kind {ERROR 0x51, ERROR 0x80, "
        "RSTACK power-on, RSTACK watchdog, NCP silent, connection_lost(exc), EOF} and with a deliberate close() as control, "
        "each with and without stray XOFF / XOFF+XON bytes from the NCP beforehand, with an earlier command left unanswered, "
        "and with callers that abandon their requests before the link gives up; "
        "plus Hypothesis cases with generated injection instants, NCP versions and line faults. Checked: at least one "
        "_reset_controller_application callback after every reported failure (for silence once a DATA frame was written "
        "afterwards), none after a deliberate close, EZSP stopped, a new command raises at once and writes nothing, nothing "
        "is written after the stop, every call in progress ends within 26 virtual seconds, the loop never hangs.",
        "An application is attached by registering one extra EZSP callback; threaded mode is not run end-to-end (C20 covers the proxy).",
        "crash-point / fault enumeration over wire events x failure kinds + Hypothesis injection plans on the full stack in virtual time",
        "DESIGN.md 4/C10",
    ),
    "C13": (
        "exploration",
        "For every protocol version 4..14 and for NCP versions above 14 (served with the v14 tables), incomingMessageHandler and trustCenterJoinHandler frames are encoded byte by byte "
        "with hand-written field tables (pre-v14 and v14 orders, independent of bellows' tables and of the unpacking code) "
        "from Hypothesis-generated contents (all message types incl. undefined, APS fields, signed RSSI extremes, payload "
        "0..100 bytes, Xiaomi/Lumi IEEE prefixes, every device-update x decision combination; zigpy's device table empty or "
        "holding the sender under a stale short address / another device on the sender's address) and pushed through "
        "EZSP.frame_received into a real ControllerApplication with recorders in place of zigpy's entry points. Exactly one "
        "packet for unicast/multicast/broadcast with source, endpoints, profile, cluster, APS sequence, payload, LQI, RSSI "
        "equal to the encoded ones and destination own-NWK/group/broadcast; none for other types; join/leave/nothing as stated; "
        "the same after the real start_network(), an NCP failure and a second bring-up on a new EZSP object; the same for sequences of 2-5 callbacks into one application (own address changing in between, back-to-back arrival, "
        "manufacturer-code command answered at once / slowly / never).",
        "Application built with the zigpy.util.Requests shim; zigpy's packet_received/handle_join/handle_leave are replaced by recorders.",
        "Hypothesis content generation with an independent byte-level encoder; decoded-packet equality (differential against hand-written layouts)",
        "DESIGN.md 4/C13",
    ),
    "C12": (
        "exploration",
        "ControllerApplication.send_packet() on a virtual clock against a simulated NCP (versions 4, 8, 13, 14, 15; thorough 4..16 - versions above 14 are served with the v14 tables): "
        "Hypothesis plans of 1-6 overlapping requests to distinct devices (unicast plain / source-routed / extended-timeout, "
        "IEEE-addressed known and unknown, multicast, broadcast) with per-attempt enqueue statuses (accepted, each busy code of "
        "the version's status family, refusals incl. undefined codes) and per-request confirmation behaviour (success, failure, "
        "none, duplicate, before the enqueue reply, wrong tag, wrong destination or table index, wrong-then-own-failure, "
        "wrong-then-right, late; foreign confirmations carry any outgoing-message type) plus unsolicited confirmations. A reference computes outcome, attempt count and retry spacing from the plan; TimeoutError not before "
        "120 s after acceptance; a successful unicast never returns before its own (destination, tag) success confirmation; "
        "no pending entry is left; no other request's frame lies between a request's first set-up frame and its send frame.",
        "Application built with the zigpy.util.Requests shim (entry removal is the shim's context manager); confirmations encoded by hand-written layouts.",
        "Hypothesis schedule/fault plans against a simulated NCP on a virtual clock; reference outcome function + frame-log invariants",
        "DESIGN.md 4/C12",
    ),
    "C14": (
        "exploration",
        "write_network_info() followed by load_network_info(load_devices=True) on a real ControllerApplication against a "
        "stateful simulated NCP (reset with version re-negotiation, leave, form, stack-status callbacks, initial/current "
        "security state, key export in the pre-v13 and v13/v14 forms, link-key table, child table, NV3 and manufacturing "
        "tokens) for every protocol version 4..14 (and NCPs reporting 15, 16) with Hypothesis-generated network/node information and NCP capabilities, the "
        "NCP factory-fresh or still holding an earlier network (other keys, non-zero counters, link keys, children). "
        "Read-back must equal what was written for PAN, extended PAN, channel, mask, update id, network key and sequence, "
        "frame counter (v5+), trust-centre link key incl. the hashed form, link keys as a set of (partner, key), children and "
        "their NWK addresses (v9+); the setInitialSecurityState argument the simulator recorded must carry exactly the given "
        "keys with presence flags matching the supplied fields.",
        "Simulator semantics (vlib/netsim.py) are assumptions about firmware behaviour listed in the evidence; application built with the Requests shim.",
        "Hypothesis round-trip through a stateful simulated NCP (write then read back); field-by-field equality + recorded-argument checks",
        "DESIGN.md 4/C14",
    ),
}

NOT_YET = "check not built yet in this session (planned, see DESIGN.md section 4)"


# additions made while closing the holes that the seeded-change rounds 5 and 6 showed (DESIGN.md 11.2)
ADDED = {
    "C01": "Further plan elements: late duplicates of ACK/NAK towards the host (up to 6 frames late), peer frames arriving back to back in one read, "
           "an upper layer that raises on selected deliveries, payloads up to the 128-byte limit of a conforming peer, a late peer send after the host gave up.",
    "C03": "Frames are also written in sequences through ONE protocol instance (every ordered ACK/NAK pair, generated mixed sequences), with the objects "
           "handed to write() re-read afterwards and with debug logging on; in-sequence DATA frames up to 256 bytes also go through the receive path.",
    "C04": "The alphabet includes the host's own reset request; the upper layer may raise on delivery.",
    "C09": "Also: a reboot announcement (non-software RSTACK) just before the handshake, commands issued while EZSP is stopped for the reset.",
    "C10": "Failure kinds also include ERROR / RSTACK codes without a name and an NCP that answers DATA alternately with NAK and silence.",
    "C11": "Also with the host having declared the link failed by itself before the request, and with stray XOFF / XON bytes before it.",
    "C12": "Also: disconnect() while accepted requests wait, caller cancellation inside the set-up commands, five failure statuses, v14 foreign tags sharing "
           "the low byte, and every attempt of a request that needs set-up must directly follow set-up of its own.",
    "C14": "Also: a second read on the same connection, one link key refused by the NCP, one erased after the restore, table sizes that are configuration "
           "(firmware defaults small, forgotten on reboot), an NCP that is off-network with keys left in non-volatile memory, masks without the channel.",
    "C15": "Also: an unreadable entry during scans (outside the host's view, not judged), 'not found' rejection statuses, the NCP table wiped before a "
           "second start-up on the same object, two or three calls for different groups in flight at once.",
    "C17": "Also: one or two additional waiters for the same status, results of the other scan kind mixed in.",
    "C19": "Also: the keep-alive in flight while the protocol handler is replaced, feeds while EZSP is stopped (v4), the protocol version switched between "
           "feeds, feed counters starting near 2^16 / 2^31 / 2^32; any BaseException from a feed is a violation.",
    "C20": "Also: keyword arguments named like the proxy's own plumbing, a plain method carrying __wrapped__ of a coroutine function, RuntimeError from "
           "owner-loop calls, and after every burst (before any await) each cross-thread coroutine body must have begun on the owner's loop.",
}
# round 7
ADDED7 = {
    "C04": "All 256 code bytes of RSTACK and ERROR (zero and unnamed ones included) are enumerated, alone and followed by a DATA frame, in one read or two.",
    "C05": "The host's own reset requests (RST written) occur at generated instants; enumerated for a link that failed by ERROR / silence / NAKs, with "
           "sends submitted between the request and the RSTACK (they must fail at once and write nothing) and after it.",
    "C08": "Frames are also fed to a handler that has received frames before: the same frame once or twice, or another mutated frame (enumerated for "
           "unknown frame IDs and known IDs with undecodable payloads in every version).",
    "C09": "Further: the NCP stops answering until the host gives up on the link by itself before the second reset; duplicated frames that arrive in the "
           "same read as the original; the simulated NCP considers its version set only by a version command naming its own version; an exception that "
           "escapes the host's data_received() is a violation.",
    "C10": "A sixth workload issues commands from other tasks while the reset is under way (RST written, RSTACK outstanding).",
    "C11": "An earlier reset on the same connection (answered in time at several instants, or timed out) precedes the request at gaps that put its "
           "5 s mark inside the request under test; the request must end at the instant of its deciding event or exactly at its own timeout.",
    "C14": "Link-key and child tables are compared as multisets (an entry read back twice is a difference); the application may have read the NCP's "
           "earlier network before the restore.",
    "C19": "Failed keep-alives are placed on and around the request that carries sequence byte 255 of the protocol handler (single failures and runs of six).",
    "C20": "Coroutine calls submitted just before force_stop() while the owner's loop is busy (queued, not yet begun) must also get an outcome.",
}
# round 8 and the property-preserving changes
ADDED8 = {
    "C01": "The number of transmissions per payload is the tree's configured value.",
    "C03": "The ACK / NAK frames the host writes by itself in answer to received DATA frames (26 in-sequence frames, a refused frame at each of 17 positions) are compared bit for bit with the independent encoder.",
    "C04": "The receiver is also exercised while one host DATA frame is in flight, with the peer's ACK / NAK / DATA frames referring to it arriving in one read (every ordered pair, selected triples, 8 start states).",
    "C07": "Entries the golden snapshot does not know (commands or versions added later) are not differences; a reverse-table entry naming a command foreign to the version is.",
    "C09": "The set of supported versions is read from the tree. Further enumerated: the RSTACK answering the second reset is lost and another task issues a command right after the failed step; one host frame lost k = 1..attempts-1 times in a row (bring-up must succeed).",
    "C14": "An earlier restore + read-back of another backup (same or another network key, other counters and devices) may precede through the same application object.",
    "C18": "After each of seven library helpers has run against an NCP answering 0x00 / 0x93 / 0x70 (every version) the whole 2 x 256 conversion table is judged again.",
    "C19": "While an unanswered keep-alive waits, a callback stamped with its own sequence byte may arrive (still a failed feed).",
}
ADDED9 = {
    "C04": "The in-flight host frame takes every number 0..7.",
    "C08": "Up to nine identical bad frames precede the frame under test on the same handler.",
    "C09": "A slow-booting NCP (RSTACK at 0.3 / 0.7 / 0.98 of the reset timeout, boot restarted by a further RST) is enumerated.",
    "C10": "Each failure is also injected so that its announcement arrives in the same read as the preceding frame.",
    "C11": "Acknowledged traffic after an earlier reset request must still succeed.",
    "C19": "The counter read is answered with 0..200 counters.",
    "C20": "Coroutine calls that wait for what a later call provides must all complete; ten non-callable attribute values are refused.",
}
CFG_NOTE = {pid: " Configured values named by the statement (command / reset / operation timeouts, attempts, tolerated failures) are read from the tree under test (vlib/cfg.py)."
            for pid in ("C01", "C05", "C06", "C08", "C09", "C10", "C11", "C12", "C17", "C19")}
RUNNER_NOTE = " In every run each fourth worker shard executes with debug logging switched on (into a null handler)."


def main():
    props = [json.loads(l) for l in open(os.path.join(ROOT, "properties.jsonl"))]
    ids = [p["id"] for p in props]
    checks = []
    for pid in ids:
        if pid not in CHECKS:
            continue
        cat, text, note, tech, ref = CHECKS[pid]
        if pid in ADDED:
            text = text + " " + ADDED[pid]
        if pid in ADDED7:
            text = text + " " + ADDED7[pid]
        if pid in ADDED8:
            text = text + " " + ADDED8[pid]
        if pid in ADDED9:
            text = text + " " + ADDED9[pid]
        note = note + CFG_NOTE.get(pid, "")
        note = note + RUNNER_NOTE
        checks.append({
            "property_id": pid,
            "quick_cmd": f"./check {pid} quick",
            "thorough_cmd": f"./check {pid} thorough",
            "evidence_file": f"evidence/{pid}.json",
            "replay_cmd_template": "./check {property} --replay {path}".replace("{property}", pid),
            "engine": "vlib",
            "level_claimed": {"category": cat, "text": text, "design_ref": ref},
            "level_note": note,
            "technique": tech,
        })
    m = {
        "version": 1,
        "setup_cmd": "./setup.sh",
        "hooks": {
            "guard": "BELLOWS_VERIF",
            "enable": "no source hooks are used: checks import bellows from /repo's working tree "
                      "(PYTHONPATH=/repo first) and own time and transports at object boundaries",
            "baseline_off_cmd": BASELINE,
            "source_commits": [],
            "add_only": True,
        },
        "engines": [{
            "name": "vlib",
            "path": "vlib/",
            "serves_properties": [c["property_id"] for c in checks],
            "kind_free_text": "Hypothesis property-based testing and exhaustive enumeration on a virtual-time "
                              "asyncio loop with independent ASH/EZSP reference models; atheris fuzz targets",
        }],
        "checks": checks,
        "not_applicable": [{"property_id": pid, "reason": NOT_YET} for pid in ids if pid not in CHECKS],
        "notes": "Exit codes: 0 held, 1 VIOLATION line printed, 2 harness error. VERIF_SEED honoured. See DESIGN.md.",
    }
    with open(os.path.join(ROOT, "MANIFEST.json"), "w") as f:
        json.dump(m, f, indent=1)
    try:
        import jsonschema
        jsonschema.validate(m, json.load(open("/root/.vp/MANIFEST.schema.json")))
        print("manifest valid:", len(checks), "checks,", len(m["not_applicable"]), "not_applicable")
    except ImportError:
        print("manifest written (jsonschema unavailable)")


if __name__ == "__main__":
    main()
